#!/bin/bash
# Runs the repository's pinned suite (guard off; there are no hooks) and prints a pass/fail summary.
cd "${1:-/repo}" || exit 2
CARGO_NET_OFFLINE=true cargo nextest run --workspace --no-fail-fast --tool-config-file pb:/w/lib/nextest.toml --profile pb --test-threads 8 --offline 2>&1 | tail -${2:-5}
