#!/usr/bin/env python3
"""Regenerates MANIFEST.json from the table below (kept in one place so it stays valid)."""
import json, subprocess
REPO_HEAD = subprocess.run(["git","-C","/repo","rev-parse","--short","HEAD"],capture_output=True,text=True).stdout.strip()

CHECKS = {
 # id: (technique, level text, level note, design_ref)
 "C18": ("total enumeration of all 1,114,112 scalar values + bounded-exhaustive name strings (len<=3/4 over 30 class representatives) in 8 syntactic positions, against transcribed tables",
         "Every Unicode scalar value is classified by the five public predicates and compared with tables transcribed from the Recommendation (complete, no bound); every short string over class representatives and range boundaries is offered as a name in every syntactic position and accept/reject compared with reference Name/NCName/QName matchers.",
         "Trusts the transcription of productions [2],[4],[4a],[13],[81] in mc/src/model/chars.rs; names longer than the bound and characters outside the 30-symbol alphabet are covered only through the per-code-point stage.",
         "DESIGN.md §5 C18"),
}
NOT_APPLICABLE = {}
ALL = ["C%02d" % i for i in range(1, 20)]

def main():
    checks = []
    for pid in ALL:
        if pid not in CHECKS: continue
        tech, text, note, ref = CHECKS[pid]
        checks.append({
            "property_id": pid,
            "quick_cmd": f"./check {pid} quick",
            "thorough_cmd": f"./check {pid} thorough",
            "evidence_file": f"/verif/evidence/{pid}.json",
            "replay_cmd_template": "./check --replay {path}",
            "engine": "xmc",
            "level_claimed": {"category": "model_checking", "text": text, "design_ref": ref},
            "level_note": note,
            "technique": tech,
        })
    na = [{"property_id": p, "reason": NOT_APPLICABLE.get(p, "check not built yet in this round (machinery under construction; see DESIGN.md §9) — not claimed until its check exists and is quiet on the unchanged tree")} for p in ALL if p not in CHECKS]
    m = {
        "version": 1,
        "setup_cmd": "cd /verif/mc && CARGO_NET_OFFLINE=true cargo build --release --offline",
        "hooks": {
            "guard": "none (no source hooks: every observation goes through public API)",
            "enable": "n/a — checks build /repo's working tree as path dependencies of /verif/mc (cargo build --release --offline)",
            "baseline_off_cmd": "cd /repo && cargo nextest run --workspace --no-fail-fast --tool-config-file pb:/w/lib/nextest.toml --profile pb --test-threads 8 --offline",
            "source_commits": [],
            "add_only": True,
        },
        "engines": [{
            "name": "xmc", "path": "/verif/mc",
            "serves_properties": [c["property_id"] for c in checks],
            "kind_free_text": "own explorer in Rust: bounded-exhaustive enumeration from abstract models with conformance replay (E1), explicit-state BFS over call histories on the real code with canonical-key dedup (E2), supervised worker processes with crash/hang isolation (E3)",
        }],
        "checks": checks,
        "not_applicable": na,
        "notes": "Known findings and fixed defects: /verif/known_findings.txt. Replay artefacts: /verif/replays/<id>/. ./check exits 2 on machinery failure (never a verdict).",
    }
    json.dump(m, open("/verif/MANIFEST.json", "w"), indent=1)
    print("MANIFEST.json written:", len(checks), "checks,", len(na), "not applicable")

main()
