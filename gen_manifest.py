#!/usr/bin/env python3
"""Regenerates MANIFEST.json from the table below (kept in one place so it stays valid)."""
import json, subprocess
REPO_HEAD = subprocess.run(["git","-C","/repo","rev-parse","--short","HEAD"],capture_output=True,text=True).stdout.strip()

CHECKS = {
 "C01": ("bounded-exhaustive generation of abstract documents (skeleton + <=k decorations) x all renderings within k' surface deviations; conformance replay against the expected infoset computed from the model, in xml_info, raw DOM and merged-text DOM views",
         "Every abstract document of a small-scope universe (all element trees up to the bound, every subset of <= 2 decorations from ~130 content/attribute/prolog/DTD items) is rendered in every spelling within the surface-deviation bound, parsed by the real crates three ways, and its complete observation compared with the information set computed from the abstract document; an independent recogniser first confirms each rendering is well-formed.",
         "Trusts the reference semantics in mc/src/model/adoc.rs (entity replacement, attribute normalisation) and the observation code in mc/src/obs.rs; line-end normalisation (XML 2.11) is not demanded (no CR in the alphabet); documents beyond the bounds are not covered.",
         "DESIGN.md §5 C01"),
 "C02": ("bounded-exhaustive token-edit neighbourhoods (distance 1; thorough: 2) of ~60 seed documents + catalogue of semantic violations, classified by an independent reference recogniser",
         "Every string within the edit bound of every seed is classified by the reference well-formedness recogniser; for every string it finds ill-formed the real parser + infoset builder must not answer Ok with empty rest.",
         "Trusts mc/src/model/wf.rs as the definition of XML 1.0 well-formedness for documents without parameter entities; strings using PEs are not judged; only over-acceptance is judged.",
         "DESIGN.md §5 C02"),
 "C03": ("supervised exhaustive sweeps: all token strings up to length L (5; thorough 7) over 18 markup tokens, edit neighbourhoods, unsupported-construct catalogue, hostile shape families with growing sizes; each case in a worker process with crash/hang attribution",
         "Every enumerated input is pushed through parse, infoset construction, a full accessor walk, Display and pretty() in supervised worker processes; any panic, abort (stack overflow), hang or super-polynomial time growth is attributed to the exact input.",
         "Time verdicts are caps on user CPU time of the parsing thread with large head-room, reported only when the growth against the previous family member is super-polynomial and reproduces on two more measurements; sizes beyond the listed family sizes are not covered; the worker has the default 8 MiB main-thread stack.",
         "DESIGN.md §5 C03"),
 "C04": ("bounded-exhaustive: every accepted document of the C01 universe and of the C02 edit neighbourhood is printed, re-parsed and compared (harness observation + crate PartialEq + printer fixpoint)",
         "For every document the implementation accepts in the enumerated spaces, the compact serialization must be accepted completely, denote an equal document by two independent equality notions, and be a fixpoint of the printer.",
         "Equality is judged by mc/src/obs.rs dumps and by the crate's own PartialEq; documents outside the enumerated spaces are not covered.",
         "DESIGN.md §5 C04"),

 "C05": ("bounded-exhaustive documents x expressions generated from a reference AST grammar (every axis x node test x predicate list from every context kind; deviation-bounded three-step paths; unions, filters, functions, comparisons over a path pool), each in unabbreviated and abbreviated spelling, compared with a reference XPath 1.0 evaluator on the data model built from the abstract document",
         "Every generated expression is evaluated on every document of the small-scope universe by xml_xpath::query (merged-text view) and by the reference evaluator; node-sets must hold exactly the expected nodes, once, in document order; scalars compare exactly.",
         "Trusts mc/src/model/xpath.rs (DESIGN.md Appendix C) and the node mapping in mc/src/checks/xp.rs; expressions and documents beyond the bounds are not covered; caller bindings are varied in C10.",
         "DESIGN.md §5 C05"),
 "C06": ("supervised exhaustive sweeps of xml_xpath::query: all token strings up to length L over 41 tokens, an unsupported / ill-typed / select-nothing catalogue in every syntactic position, the well-typed C05 families, 53 hostile shape families (doubling sizes; +2 steps for shapes whose node lists or predicate evaluations multiply per repetition) with growing sizes; crash / hang attributed to the exact expression by worker processes",
         "Every enumerated expression string is evaluated on six documents (attributes, comments / PIs, namespaces, xml:lang, empty CDATA sections, a prefix bound to the reserved XML namespace name) in supervised workers, with every kind of node as context node of every kind of expression; the only acceptable outcomes are a value or an error (and error-or-empty for variable references and id()); time blow-ups are judged by a soft cap with a growth test against the previous family member (16x per doubling, 2.5x per +2 step).",
         "Time verdicts are caps on user CPU time of the evaluating thread, reported only when the growth against the previous family member is super-polynomial and reproduces on two more measurements; strings longer than L over other tokens are not covered; the worker has the default 8 MiB main-thread stack.",
         "DESIGN.md §5 C06"),
 "C07": ("bounded-exhaustive node-set invariants on the implementation's own results: every path of a pool, every ordered pair (union algebra, counts, positional filters) and every triple of a sub-pool (associativity) on every document",
         "Each node-set the implementation returns is checked for duplicates and document order; A|B against the set union of A and B, commutativity, idempotence, count bound, positional filters on parenthesised unions, associativity.",
         "Node identity is (kind, XmlNode::id()); document order comes from the harness's own walk, not from XmlNode::order(); no reference evaluator is needed.",
         "DESIGN.md §5 C07"),
 "C08": ("metamorphic, bounded-exhaustive: every expression AST in every spelling one deviation away from its unabbreviated and abbreviated base spellings (abbreviation sites, numeric predicates, redundant parentheses, white space per gap) must evaluate identically; operator pairs x operand triples against the prescribed parenthesisation; node-type tests at every step start; lexical disambiguation cases",
         "All single-deviation respellings of every AST of the C05 families are compared on several documents; every ordered pair of binary operators over an operand pool is compared with the grouping the grammar prescribes.",
         "White space only between tokens; the reference value is used only to say which side is wrong.",
         "DESIGN.md §5 C08"),
 "C09": ("bounded-exhaustive products of core functions / operators with argument tuples from string, number and boolean pools, rendered from the AST and compared with a reference XPath 1.0 core library",
         "Every function and operator application over the pools (every arity admitted, one below and one above) is evaluated by xml_xpath::query and by the reference evaluator; values compare exactly (numbers bitwise, NaN canonical).",
         "Trusts mc/src/model/xpath.rs (number <-> string conversions, substring rounding formula, round tie rule, comparison coercions) as the reading of XPath 1.0 sections 3.4, 3.5 and 4; strings outside the pool are not covered.",
         "DESIGN.md §5 C09"),
 "C10": ("bounded-exhaustive namespace layouts (20 slots over a 4-element skeleton, at most k non-default, namespace-well-formed only) x prefix renamings and reversed attribute order x 8 caller binding sets; expanded names, in-scope sets and name-test results against scope resolution on the abstract document; plus 57 document pairs in which an xmlns / xmlns:p / xmlns:q attribute is declared in the DTD (#IMPLIED, #REQUIRED, default, #FIXED) against the equivalent document without a DTD (differential: names, in-scope sets, 22 scalar queries)",
         "Every element's and attribute's expanded name, every element's in-scope namespace set, and 25-35 name tests / name functions per binding set are compared with the reference on every enumerated layout; consistent prefix renamings of the document and of the caller's bindings must not change results.",
         "Trusts the scope resolution in mc/src/model/xpath.rs XTree::from_adoc; layouts beyond k deviations and other skeletons are not covered; xq --setns is exercised in C17.",
         "DESIGN.md §5 C10"),
 "C11": ("bounded-exhaustive attribute value literals (all sequences of <= n parts over 20 parts) x declared types, and default kinds x types x written/absent x 8 declaration placements, against XML 1.0 3.3.3 computed on the abstract value",
         "Every enumerated attribute value and defaulting layout is parsed and the value, specified flag, get_attribute, attribute count and XPath string value are compared with the normalization algorithm applied step by step to the abstract value; the attributes are read both before and after the element content.",
         "Trusts Dtd::normalize_parts / Dtd::attributes in mc/src/model/adoc.rs; a literal CR LF may give one or two spaces (the property does not mention XML 1.0 2.11); entities whose replacement text holds '&' or '<' are outside the model.",
         "DESIGN.md §5 C11"),
 "C12": ("explicit-state BFS over DOM call histories on the real xml_dom objects (state = history, re-executed from a fresh parse; canonical-key dedup), tree invariants evaluated after every transition and attributed to the transition that introduces them",
         "Every DOM Level 1 structural mutator, factory, attribute operation and split_text is applied with every receiver/argument choice among all live handles (attached, detached, created, foreign, document, attributes, text) to every reachable state up to the depth bound; in every reached state all navigation views of all live nodes are cross-checked.",
         "Node identity is (kind, XmlNode::id()); states beyond the depth bound and more than one created node per history are not covered.",
         "DESIGN.md §5 C12"),
 "C13": ("explicit-state BFS over DOM call histories with a reference DOM Level 1 tree applied in lock-step: effect, admissible exception set, atomic failure, no panic",
         "For every (reachable state, call) the implementation's outcome must be the DOM Level 1 effect computed by the reference tree or one of the exception classes DOM Level 1 allows there; a failed call must leave tree, order-key ranks and serialization unchanged; a panic is a violation.",
         "Trusts mc/src/model/dom.rs (Appendix B of DESIGN.md) incl. its leniencies where DOM Level 1 is silent; errors are mapped to DOM classes leniently.",
         "DESIGN.md §5 C13"),
 "C14": ("explicit-state BFS over edit histories; after every state-changing transition (1) order keys strictly increase along the harness's own pre-order walk and (2) 32 node-set queries select the same positions on the edited document as on a fresh parse of its serialization (differential, no expected values) and (3) the transition is repeated on a copy that was queried before the edit with one kept evaluation context: 9 queries must then select what they select on the copy never queried before",
         "Order-key monotonicity, query agreement with the re-parsed serialization and independence from queries evaluated before the edit (also when namespace declarations are set / removed above prefixed elements) are evaluated in every reached state of the bounded search and attributed to the transition that breaks them.",
         "Positions are compared on a walk that merges adjacent Text nodes and drops empty ones (what a re-parse produces); positional queries are compared only in states without adjacent/empty Text nodes; states whose serialization does not re-parse are C15's concern.",
         "DESIGN.md §5 C14"),

 "C15": ("explicit-state BFS over creation / attachment / data-editing histories with markup-significant string pieces; after every successful state-changing call the serialization is re-parsed and compared with what the DOM reports",
         "Every call of the alphabet (factories with every name and data string, append under every attached element, attribute and value setters, append/insert/delete/set data with every offset and count, split_text) is applied in every reachable state up to the depth bound, starting from documents whose nodes hold the first half of a forbidden sequence; success must leave a document whose compact serialization parses completely and reports the same names, values and data.",
         "Content comparison is by mc/src/checks/c15.rs content_dump (adjacent Text merged, empty Text dropped); detached nodes are judged once attached; panics in factories are C13's.",
         "DESIGN.md §5 C15"),
 "C16": ("explicit-state BFS over character-data call histories with every offset/count in 0..=len+2 and usize::MAX against a Vec<char> reference model; length() cross-checked after every call; merged-text view read-only stage",
         "Every character-data operation with every offset, count and argument string of the alphabet is applied to text, attribute-text, comment and CDATA nodes holding ASCII, multi-byte, astral and combining characters in every reachable state up to the depth bound; result, successor data, exception class, atomic failure and absence of panics are compared with the reference.",
         "Trusts the DOM Level 1 reading in mc/src/model/dom.rs (offset > length: index-size; count past the end: clipped); argument strings hold no markup characters.",
         "DESIGN.md §5 C16"),
 "C19": ("bounded-exhaustive query histories: all sequences up to length n over a pool of 59 queries (incl. ones failing inside predicates, filters and arguments) against one document object and one shared context, each answer compared with the fresh-parse fresh-context answer, document state compared before/after; every document parsed twice",
         "Every query sequence up to the bound is issued on a shared context and document; each answer must equal the answer the query gets alone, and the document's serialization, ids and order keys must not change; two parses of one text must be equal in every observation.",
         "The pool of queries and the five documents bound the histories; equality of answers is by the harness's value dump with nodes mapped to the reference tree.",
         "DESIGN.md §5 C19"),
 # id: (technique, level text, level note, design_ref)
 "C17": ("bounded-exhaustive product of documents x selecting paths x replacement values x flags run through the REAL xe / xq binaries as processes; reference parser + reference XPath + reference edit compute the expected document / lines; stdout parsed back with the reference parser",
         "For every combination within the deviation bound the compact output of xe must denote exactly the document in which the children of the selected nodes are replaced, xq must print one serialization per selected node in document order or the scalar, and unusable input must end with a message and a non-zero status without a crash.",
         "Trusts wf.rs (reference parser), the reference XPath evaluator and the edit model in mc/src/checks/c17.rs; pretty-printed output is checked for status and crashes only.",
         "DESIGN.md §5 C17"),
 "C18": ("total enumeration of all 1,114,112 scalar values (5 predicates) + every code point (quick: 82k class representatives and boundaries; thorough: all) in 16 parser slots and 2 XPath slots whose character class the parsers decide themselves + bounded-exhaustive name strings (len<=3/4 over 30 class representatives) in 8 syntactic positions, against transcribed tables",
         "Every Unicode scalar value is classified by the five public predicates and compared with tables transcribed from the Recommendation (complete, no bound); placed in VersionNum, EncName, CharRef digits, S, PubidLiteral, SystemLiteral, EntityValue, CharData, AttValue, Comment, PI data and CDATA the document must be accepted iff the production's class holds; every short string over class representatives and range boundaries is offered as a name in every syntactic position and accept/reject compared with reference Name/NCName/QName matchers.",
         "Trusts the transcription of productions [2],[4],[4a],[13],[81] in mc/src/model/chars.rs; names longer than the bound and characters outside the 30-symbol alphabet are covered only through the per-code-point stage.",
         "DESIGN.md §5 C18"),
}
NOT_APPLICABLE = {}
ALL = ["C%02d" % i for i in range(1, 20)]

def main():
    checks = []
    for pid in ALL:
        if pid not in CHECKS: continue
        tech, text, note, ref = CHECKS[pid]
        checks.append({
            "property_id": pid,
            "quick_cmd": f"./check {pid} quick",
            "thorough_cmd": f"./check {pid} thorough",
            "evidence_file": f"/verif/evidence/{pid}.json",
            "replay_cmd_template": "./check --replay {path}",
            "engine": "xmc",
            "level_claimed": {"category": "model_checking", "text": text, "design_ref": ref},
            "level_note": note,
            "technique": tech,
        })
    na = [{"property_id": p, "reason": NOT_APPLICABLE.get(p, "check not built yet in this round (machinery under construction; see DESIGN.md §9) — not claimed until its check exists and is quiet on the unchanged tree")} for p in ALL if p not in CHECKS]
    m = {
        "version": 1,
        "setup_cmd": "cd /verif/mc && CARGO_NET_OFFLINE=true cargo build --release --offline",
        "hooks": {
            "guard": "none (no source hooks: every observation goes through public API)",
            "enable": "n/a — checks build /repo's working tree as path dependencies of /verif/mc (cargo build --release --offline)",
            "baseline_off_cmd": "cd /repo && cargo nextest run --workspace --no-fail-fast --tool-config-file pb:/w/lib/nextest.toml --profile pb --test-threads 8 --offline",
            "source_commits": [],
            "add_only": True,
        },
        "engines": [{
            "name": "xmc", "path": "/verif/mc",
            "serves_properties": [c["property_id"] for c in checks],
            "kind_free_text": "own explorer in Rust: bounded-exhaustive enumeration from abstract models with conformance replay (E1), explicit-state BFS over call histories on the real code with canonical-key dedup (E2), supervised worker processes with crash/hang isolation (E3)",
        }],
        "checks": checks,
        "not_applicable": na,
        "notes": "Known findings and fixed defects: /verif/known_findings.txt. Replay artefacts: /verif/replays/<id>/. ./check exits 2 on machinery failure (never a verdict).",
    }
    json.dump(m, open("/verif/MANIFEST.json", "w"), indent=1)
    print("MANIFEST.json written:", len(checks), "checks,", len(na), "not applicable")

main()
