//! C19 — parsing and querying are deterministic and side-effect free.

use crate::checks::xgen;
use crate::checks::xp::*;
use crate::engine::{Check, Finding, Meta, Sink, Space, Tier};
use crate::model::adoc::{render_canonical, ADoc};
use crate::obs;
use xml_dom::{AsNode, NamedNodeMap, Node, XmlDocument, XmlNode};

pub struct C19C;
pub static C19: C19C = C19C;

pub const QUERIES: &[&str] = &[
    // node-sets, positional predicates on both directions, unions, filters
    "//a",
    "/r/*[2]",
    "//*[last()]",
    "//b/preceding-sibling::*[1]",
    "//@*",
    "(//a|//b)[1]",
    "//*[*[position()=last()]]",
    "//a[b[1]][1]",
    "//text()",
    // scalars; position() and last() at the top level see the bottom of the context stacks
    "count(//*)",
    "string(/r)",
    "position()",
    "last()",
    "position() + last()",
    "sum(//b)",
    "name(/*)",
    "//*[position() = 1 and last() > 1]",
    // failures inside a predicate, a filter, a function argument, a nested predicate
    "//a[foo()]",
    "//*[count(1)]",
    "//a[q:x]",
    "//a[$v]",
    "(//a)[foo()]",
    "//*[a | 1]",
    "count(foo())",
    "//a[substring()]",
    "//a[position() = foo()]",
    "//*[b[bar()]]",
    "(//a[foo()])[1]",
    "string(//a[$v])",
    "//a[1][foo()]",
    "//a[foo()][1]",
    "//*[not(q:f())]",
    "//*[//*[//*[foo()]]]",
    "(//*)[position() > 1][foo()]",
    "//*[last() > 1][$v]",
    // failures at the top level and syntax errors
    "foo()",
    "$v",
    "1 +",
    "//q:a",
    ")",
    "",
    // values that the implementation computes lazily (entity expansion in attribute values vs content)
    "string(/r/@title)",
    "string(/r/t)",
    "//*[@x = 'a b c']",
    "//*[. = 'xa\tb\ncy']",
    // the order of the attribute axis (written and defaulted attributes)
    "name(//@*[1])",
    "name(/r/@*[last()])",
    "name(//b/@*[2])",
    "string(//b/@*[7])",
    // filter expressions and steps whose predicate leaves no node, then the context stacks
    "(//a)[@none]",
    "(//a)[false()]",
    "//*[(b)[@none]]",
    "(//none)[1]",
    "(//a)[1][2]",
    "//a[@none][1]",
    "(//*)[position() > 99][1]",
    // uses of the caller's bindings
    "//p:a",
    "count(//p:*)",
    "name(//p:*[1])",
];

fn doc_state(doc: &XmlDocument) -> String {
    fn walk(n: &XmlNode, out: &mut String) {
        out.push_str(&format!("{:?}#{}@{};", k_of(n), n.id(), n.order()));
        if let XmlNode::Element(e) = n {
            if let Some(attrs) = e.attributes() {
                let mut v: Vec<String> = attrs.iter().map(|a| format!("{}#{}@{}", a.as_node(), a.as_node().id(), a.as_node().order())).collect();
                // the order in which the map lists the attributes is the implementation's choice, but one choice:
                // two parses, and two reads of one document, list them alike (attribute axis, item(i))
                let listed: Vec<String> = attrs.iter().map(|a| a.as_node().node_name()).collect();
                let again: Vec<String> = e.attributes().map(|m| m.iter().map(|a| a.as_node().node_name()).collect()).unwrap_or_default();
                out.push_str(&format!("listed[{}]", listed.join(" ")));
                if again != listed {
                    out.push_str(&format!("second-read[{}]", again.join(" ")));
                }
                v.sort();
                out.push_str(&v.join(","));
            }
        }
        if matches!(n, XmlNode::Element(_) | XmlNode::Document(_)) {
            for c in n.child_nodes().iter() {
                walk(&c, out);
            }
        }
    }
    let mut s = doc.to_string();
    s.push('\n');
    walk(&doc.as_node(), &mut s);
    s
}

struct Sequences {
    docs: Vec<ADoc>,
    len: usize,
    bindings: Vec<Bindings>,
}

impl Sequences {
    fn total(&self) -> u64 {
        let q = QUERIES.len() as u64;
        let mut n = 0;
        let mut p = 1;
        for _ in 0..self.len {
            p *= q;
            n += p;
        }
        n
    }
    fn sequence(&self, mut idx: u64) -> Vec<usize> {
        let q = QUERIES.len() as u64;
        let mut len = 1;
        let mut p = q;
        while idx >= p {
            idx -= p;
            p *= q;
            len += 1;
        }
        let mut v = vec![];
        for _ in 0..len {
            v.push((idx % q) as usize);
            idx /= q;
        }
        v.reverse();
        v
    }
}

const CHUNK: u64 = 64;

thread_local! {
    /// per worker: for each (doc, binding set): fixture, fresh-context answers of every query
    static BASE: std::cell::RefCell<Option<Vec<(usize, usize, Fixture, Vec<Outcome>)>>> = const { std::cell::RefCell::new(None) };
}

impl Space for Sequences {
    fn len(&self) -> u64 {
        (self.total() + CHUNK - 1) / CHUNK
    }
    fn describe(&self, idx: u64) -> String {
        let s = self.sequence(idx * CHUNK);
        format!("query sequences {}.. (length <= {}), first: {:?}", idx * CHUNK, self.len, s.iter().map(|i| QUERIES[*i]).collect::<Vec<_>>())
    }
    fn run(&self, idx: u64, sink: &mut Sink) {
        BASE.with(|cell| {
            let mut b = cell.borrow_mut();
            if b.is_none() {
                let mut v = vec![];
                for (di, d) in self.docs.iter().enumerate() {
                    for (bi, binds) in self.bindings.iter().enumerate() {
                        if let Ok(fx) = fixture(d) {
                            // each query alone: fresh parse, fresh context
                            let alone: Vec<Outcome> = QUERIES
                                .iter()
                                .map(|q| match fixture(d) {
                                    Ok(f2) => run_query(&f2.doc, q, binds, Some((&f2.map, &f2.tree))),
                                    Err(e) => Outcome::Err(e),
                                })
                                .collect();
                            v.push((di, bi, fx, alone));
                        }
                    }
                }
                *b = Some(v);
            }
            let base = b.as_ref().unwrap();
            for k in idx * CHUNK..((idx + 1) * CHUNK).min(self.total()) {
                let seq = self.sequence(k);
                sink.count("states", 1);
                if k % 5003 == 11 {
                    sink.sample(|| format!("{:?}", seq.iter().map(|i| QUERIES[*i]).collect::<Vec<_>>()));
                }
                for (di, bi, fx, alone) in base.iter() {
                    // one shared context for the whole sequence, one document object for all sequences
                    let mut ctx = new_context(&self.bindings[*bi]);
                    let before = doc_state(&fx.doc);
                    for (pos, qi) in seq.iter().enumerate() {
                        sink.count("transitions", 1);
                        let got = run_query_ctx(&fx.doc, QUERIES[*qi], &mut ctx, Some((&fx.map, &fx.tree)));
                        sink.count("validated", 1);
                        let same = match (&alone[*qi], &got) {
                            (Outcome::Err(_), Outcome::Err(_)) => true,
                            (a, b) => a == b,
                        };
                        if matches!(got, Outcome::Val(_)) {
                            sink.count("nontrivial", 1);
                        }
                        if !same {
                            let earlier: Vec<&str> = seq[..pos].iter().map(|i| QUERIES[*i]).collect();
                            let culprit = earlier.last().copied().unwrap_or("(first query)");
                            sink.finding(Finding {
                                sig: format!("answer-depends-on-history/after:{}/query:{}", culprit, QUERIES[*qi]).replace('\t', " ").replace('\n', " "),
                                what: "a query answers differently on a re-used context / document than alone".into(),
                                case: format!("document {} bindings {:?}\nqueries so far: {:?}\nthen: {}", fx.text, self.bindings[*bi], earlier, QUERIES[*qi]),
                                expected: format!("{:?}  (fresh parse, fresh context)", alone[*qi]),
                                observed: format!("{:?}", got),
                            });
                            break;
                        }
                    }
                    let after = doc_state(&fx.doc);
                    if after != before {
                        sink.finding(Finding {
                            sig: format!("document-changed-by-query/{}", seq.iter().map(|i| QUERIES[*i]).collect::<Vec<_>>().join(" ; ")),
                            what: "evaluating queries changed the document (serialization, node ids or order keys)".into(),
                            case: format!("document {} (doc {})\nqueries: {:?}", fx.text, di, seq.iter().map(|i| QUERIES[*i]).collect::<Vec<_>>()),
                            expected: before,
                            observed: after,
                        });
                    }
                }
            }
        })
    }
}

/// parsing the same text twice
struct ParseTwice {
    docs: Vec<ADoc>,
}

impl Space for ParseTwice {
    fn len(&self) -> u64 {
        self.docs.len() as u64
    }
    fn describe(&self, idx: u64) -> String {
        format!("parse twice: {}", render_canonical(&self.docs[idx as usize]))
    }
    fn run(&self, idx: u64, sink: &mut Sink) {
        let text = render_canonical(&self.docs[idx as usize]);
        sink.count("states", 1);
        sink.count("transitions", 2);
        let (p1, d1) = obs::parse_info(&text);
        let (p2, d2) = obs::parse_info(&text);
        sink.count("validated", 1);
        let findings: std::cell::RefCell<Vec<Finding>> = std::cell::RefCell::new(vec![]);
        let report = |kind: &str, exp: String, obsd: String| {
            findings.borrow_mut().push(Finding { sig: format!("parse-not-deterministic/{}", kind), what: "two parses of one text differ".into(), case: text.clone(), expected: exp, observed: obsd })
        };
        if p1 != p2 {
            report("outcome", format!("{:?}", p1), format!("{:?}", p2));
            for f in findings.into_inner() {
                sink.finding(f);
            }
            return;
        }
        if let (Some(a), Some(b)) = (d1, d2) {
            sink.count("nontrivial", 1);
            let (sa, sb) = (a.borrow().to_string(), b.borrow().to_string());
            if sa != sb {
                report("serialization", sa.clone(), sb);
            }
            if *a.borrow() != *b.borrow() {
                report("partial-eq", "the two documents compare equal".into(), "a != b".into());
            }
            let (da, db) = (obs::info_dump(&a, obs::View::Raw), obs::info_dump(&b, obs::View::Raw));
            if da != db {
                report("infoset", da, db);
            }
            // and the DOM views
            for expanded in [false, true] {
                let (_, x) = obs::parse_dom(&text, expanded);
                let (_, y) = obs::parse_dom(&text, expanded);
                if let (Some(x), Some(y)) = (x, y) {
                    if doc_state(&x) != doc_state(&y) {
                        report("dom-state", doc_state(&x), doc_state(&y));
                    }
                }
            }
        }
        for f in findings.into_inner() {
            sink.finding(f);
        }
    }
}

fn seq_docs() -> Vec<ADoc> {
    use crate::model::adoc::*;
    let d = xgen::rich_docs();
    // an entity whose replacement text holds white space, referenced in an attribute value (where it
    // is normalized) and in content (where it is not): values computed lazily must not depend on
    // which of the two was read first
    let mut ent = doc(el(
        "r",
        vec![atp("title", vec![Part::Text("x".into()), Part::EntRef("e".into()), Part::Text("y".into())])],
        vec![e("t", vec![], vec![tx("x"), ANode::EntRef("e".into()), tx("y")]), e("a", vec![atp("x", vec![Part::EntRef("e".into())])], vec![])],
    ));
    ent.doctype = Some(ADoctype { name: "r".into(), public: None, system: None, decls: vec![ADecl::Entity { name: "e".into(), value: vec![Part::Text("a\tb\nc".into())] }], subset: true });
    vec![d[0].clone(), d[7].clone(), d[3].clone(), ent, many_defaults()]
}

/// eight attributes defaulted from the DTD on one element, two of them written: the order in which they are listed
/// (attribute axis, `@*[1]`, `@*[last()]`) must be the same on every read
fn many_defaults() -> ADoc {
    use crate::model::adoc::*;
    let mut dd = doc(el("r", vec![at("d3", "w"), at("z", "1")], vec![e("a", vec![], vec![tx("t")]), e("b", vec![at("d6", "w")], vec![])]));
    let defs = |n: usize| -> Vec<AAttDef> {
        (1..=n)
            .map(|i| AAttDef { name: format!("d{}", i), ty: "CDATA".into(), default: ADefault::Value { fixed: i % 3 == 0 && i != 3 && i != 6, value: vec![Part::Text(format!("v{}", i))] } })
            .collect()
    };
    dd.doctype = Some(ADoctype {
        name: "r".into(),
        public: None,
        system: None,
        decls: vec![ADecl::AttList { elem: "r".into(), defs: defs(8) }, ADecl::AttList { elem: "b".into(), defs: defs(8) }],
        subset: true,
    });
    dd
}

impl Check for C19C {
    fn id(&self) -> &'static str {
        "C19"
    }
    fn stages(&self, _tier: Tier) -> Vec<String> {
        vec!["parse-twice".into(), "sequences".into()]
    }
    fn prepare(&self, stage: &str, tier: Tier, _input: &[String]) -> Box<dyn Space> {
        if stage == "parse-twice" {
            let mut docs = xgen::docs(tier == Tier::Quick);
            // plus the decorated documents of the C01 universe (prolog, DTD, references)
            let sk = crate::model::gen::skeletons(2);
            for s in sk {
                for d in crate::model::gen::decorations(&s) {
                    docs.push(crate::model::gen::apply(&s, &[&d]));
                }
            }
            docs.push(many_defaults());
            return Box::new(ParseTwice { docs });
        }
        let bindings: Vec<Bindings> = vec![vec![], vec![(Some("p".into()), "v".into()), (Some("q".into()), "none".into()), (None, "u".into())]];
        Box::new(Sequences { docs: seq_docs(), len: tier.pick(3, 4), bindings })
    }
    fn case_cap(&self, tier: Tier) -> f64 {
        tier.pick(30.0, 120.0)
    }
    fn meta(&self) -> Meta {
        Meta {
            rule: "stage sequences: ALL sequences of length <= n over a pool of 59 queries (node-set, scalar, positional and nested-predicate queries; queries that fail inside a predicate, a filter, a function argument or a nested predicate — unknown function, wrong arity, count(1), unbound prefix, variable, type error in a union —; failures at the top level and syntax errors; queries using the caller's bindings) issued against ONE document object and ONE evaluation context (with and without namespace bindings): every query's answer must equal its answer on a fresh parse with a fresh context (in particular top-level position()/last() and positional predicates after a failed query), and the document's serialization, node ids and order keys must be identical before and after. Stage parse-twice: every document of the XPath universe and every singly decorated document of the C01 universe is parsed twice: equal outcome, serialization, PartialEq, infoset dump and DOM state. Non-trivial = the query returned a value.",
            bounds_quick: "sequences of length <= 3 (208,919) x 5 documents x 2 binding sets",
            bounds_thorough: "sequences of length <= 4 (12,326,280) x 5 documents x 2 binding sets",
            assumptions: &["one document object is shared by all sequences of a worker (so a document mutated by any query is noticed by a later state comparison)"],
            unbounded_total: false,
        }
    }
}
