//! E2 — explicit-state breadth-first search over DOM call histories on the real code, with the
//! reference DOM model applied in lock-step.  Shared by C12 (tree invariants), C13 (DOM Level 1
//! effect / exception / atomic failure), C14 (document order), C15 and C16.

use crate::engine::{guard, panic_site, Finding, Sink, Space};
use crate::model::dom::*;
use crate::obs;
use std::collections::HashMap;
use xml_dom::{
    AsNode, Attr, AttrMut, CharacterData, CharacterDataMut, Document, DocumentMut, Element, ElementMut, NamedNodeMap,
    NamedNodeMapMut, Node, NodeMut, ProcessingInstruction, TextMut, XmlDocument, XmlNode,
};

pub fn kind_of(n: &XmlNode) -> Kind {
    match n {
        XmlNode::Document(_) => Kind::Document,
        XmlNode::Element(_) => Kind::Element,
        XmlNode::Attribute(_) => Kind::Attr,
        XmlNode::Text(_) => Kind::Text,
        XmlNode::CData(_) => Kind::CData,
        XmlNode::Comment(_) => Kind::Comment,
        XmlNode::PI(_) => Kind::PI,
        XmlNode::EntityReference(_) => Kind::EntityRef,
        XmlNode::DocumentType(_) => Kind::DocType,
        // the merged text node of the text_expanded view: a text node for navigation purposes
        // (its identity is the id of its first piece)
        XmlNode::ExpandedText(_) => Kind::Text,
        _ => Kind::Other,
    }
}

pub fn map_err(e: &xml_dom::error::Error) -> Exc {
    use xml_dom::error::{DomException as D, Error as E};
    match e {
        E::Dom(d) => match d {
            D::IndexSizeErr => Exc::IndexSize,
            D::DomStringSizeErr => Exc::OtherError,
            D::HierarchyRequestErr => Exc::Hierarchy,
            D::WrongDocumentErr => Exc::WrongDocument,
            D::InvalidCharacterErr => Exc::InvalidCharacter,
            D::NoDataAllowedErr => Exc::NoDataAllowed,
            D::NoModificationAllowedErr => Exc::NoModification,
            D::NotFoundErr => Exc::NotFound,
            D::NotSupportErr => Exc::NotSupported,
            D::InuseAttributeErr => Exc::InUse,
        },
        E::Info(i) => match i {
            xml_info::error::Error::InvalidHierarchy | xml_info::error::Error::InvalidType => Exc::Hierarchy,
            xml_info::error::Error::IsolatedNode => Exc::Hierarchy,
            xml_info::error::Error::OufOfIndex(_) => Exc::NotFound,
            xml_info::error::Error::InvalidData(_) | xml_info::error::Error::Parse(_) => Exc::InvalidCharacter,
            xml_info::error::Error::NotFoundReference(_) => Exc::NotFound,
            _ => Exc::OtherError,
        },
        E::Parse(_) => Exc::InvalidCharacter,
    }
}

#[derive(Debug, Clone)]
pub enum Res {
    Ok { ret: Option<XmlNodeId>, text: Option<String> },
    Err(Exc, String),
    Panic(String),
    /// the Rust API has no such method for this receiver kind
    NotApplicable,
}

#[derive(Debug, Clone, PartialEq)]
pub struct XmlNodeId(pub usize, pub Kind);

pub struct Live {
    pub doc: XmlDocument,
    pub foreign: Option<XmlDocument>,
    pub pool: Vec<XmlNode>,
    pub is_foreign: Vec<bool>,
    /// (kind tag, id) -> handle for nodes of the main document
    pub ids: HashMap<(Kind, usize), usize>,
    pub model: Option<MDom>,
    pub expanded: bool,
}

thread_local! {
    /// C14 only: attributes defaulted from the DTD (throw-away nodes without an order key, a recorded deviation) are part of
    /// the documents but not of the handle pool: the histories edit the ordinary nodes around them
    pub static SKIP_DEFAULTED: std::cell::Cell<bool> = const { std::cell::Cell::new(false) };
}

fn is_skipped(n: &XmlNode) -> bool {
    if let XmlNode::Attribute(a) = n {
        return SKIP_DEFAULTED.with(|c| c.get()) && !xml_dom::Attr::specified(a);
    }
    false
}

fn walk_into(n: &XmlNode, out: &mut Vec<XmlNode>) {
    if is_skipped(n) {
        return;
    }
    out.push(n.clone());
    if let XmlNode::Element(e) = n {
        if let Some(attrs) = e.attributes() {
            let mut at: Vec<xml_dom::XmlAttr> = attrs.iter().collect();
            at.sort_by_key(|a| a.name());
            for a in at {
                walk_into(&a.as_node(), out);
            }
        }
    }
    match n {
        XmlNode::Element(_) | XmlNode::Attribute(_) | XmlNode::Document(_) => {
            for c in n.child_nodes().iter() {
                walk_into(&c, out);
            }
        }
        _ => {}
    }
}

impl Live {
    pub fn new(text: &str, foreign_text: Option<&str>, expanded: bool) -> Option<Live> {
        let (p, doc) = obs::parse_dom(text, expanded);
        if p != obs::Parsed::Complete {
            return None;
        }
        let doc = doc?;
        let foreign = foreign_text.and_then(|t| obs::parse_dom(t, expanded).1);
        let mut pool = vec![];
        walk_into(&doc.as_node(), &mut pool);
        let n_main = pool.len();
        if let Some(f) = &foreign {
            walk_into(&f.as_node(), &mut pool);
        }
        let mut is_foreign = vec![false; n_main];
        is_foreign.resize(pool.len(), true);
        let mut ids = HashMap::new();
        for (i, n) in pool.iter().enumerate().take(n_main) {
            ids.insert((kind_of(n), n.id()), i);
        }
        let mut l = Live { doc, foreign, pool, is_foreign, ids, model: None, expanded };
        // the reference DOM tree models the raw view; in the merged-text view only the model-free
        // monitors apply (no panic, atomic failure, tree invariants, order, serialization)
        if !expanded {
            l.model = Some(l.snapshot_model());
        }
        Some(l)
    }

    pub fn handle_of(&self, n: &XmlNode) -> Option<usize> {
        self.ids.get(&(kind_of(n), n.id())).copied()
    }

    fn h(&self, n: Option<XmlNode>) -> String {
        match n {
            None => "-".into(),
            Some(x) => match self.handle_of(&x) {
                Some(h) => h.to_string(),
                None => format!("?{}#{}", kind_of(&x).tag(), x.id()),
            },
        }
    }

    /// assign handles to nodes that are reachable from the pool but not yet in it
    pub fn discover(&mut self) {
        let mut found: Vec<XmlNode> = vec![];
        let mut seen: std::collections::HashSet<(Kind, usize)> = std::collections::HashSet::new();
        fn visit(l: &Live, n: &XmlNode, found: &mut Vec<XmlNode>, seen: &mut std::collections::HashSet<(Kind, usize)>, depth: usize) {
            if depth > 64 || is_skipped(n) {
                return;
            }
            let key = (kind_of(n), n.id());
            if !seen.insert(key) {
                return;
            }
            if !l.ids.contains_key(&key) && !matches!(kind_of(n), Kind::Other) {
                found.push(n.clone());
            }
            if let XmlNode::Element(e) = n {
                if let Some(attrs) = e.attributes() {
                    let mut at: Vec<xml_dom::XmlAttr> = attrs.iter().collect();
                    at.sort_by_key(|a| a.name());
                    for a in at {
                        visit(l, &a.as_node(), found, seen, depth + 1);
                    }
                }
            }
            if matches!(n, XmlNode::Element(_) | XmlNode::Attribute(_) | XmlNode::Document(_)) {
                for c in n.child_nodes().iter() {
                    visit(l, &c, found, seen, depth + 1);
                }
            }
        }
        // attached tree first, then detached roots in handle order
        visit(self, &self.doc.as_node(), &mut found, &mut seen, 0);
        for i in 0..self.pool.len() {
            if !self.is_foreign[i] {
                let n = self.pool[i].clone();
                visit(self, &n, &mut found, &mut seen, 0);
            }
        }
        for n in found {
            let h = self.pool.len();
            self.ids.insert((kind_of(&n), n.id()), h);
            self.pool.push(n);
            self.is_foreign.push(false);
        }
    }

    fn register(&mut self, n: &XmlNode) -> usize {
        if let Some(h) = self.handle_of(n) {
            return h;
        }
        // new detached node: register it and whatever hangs below it
        let before = self.pool.len();
        let h = before;
        self.ids.insert((kind_of(n), n.id()), h);
        self.pool.push(n.clone());
        self.is_foreign.push(false);
        self.discover();
        h
    }

    pub fn value_of(n: &XmlNode) -> String {
        match n {
            XmlNode::Attribute(a) => a.value().unwrap_or_else(|e| format!("<error {:?}>", e)),
            XmlNode::Text(t) => t.data().unwrap_or_default(),
            XmlNode::CData(t) => t.data().unwrap_or_default(),
            XmlNode::Comment(t) => t.data().unwrap_or_default(),
            XmlNode::PI(p) => p.data(),
            XmlNode::ExpandedText(t) => t.data().unwrap_or_default(),
            _ => String::new(),
        }
    }

    pub fn name_of(n: &XmlNode) -> String {
        match n {
            XmlNode::EntityReference(_) => {
                let s = n.node_name();
                s
            }
            _ => n.node_name(),
        }
    }

    /// the model as a snapshot of the implementation's current state (initial state only)
    fn snapshot_model(&self) -> MDom {
        let mut d = MDom::default();
        for (i, n) in self.pool.iter().enumerate() {
            let kind = kind_of(n);
            let mut m = MNode {
                kind,
                name: Self::name_of(n),
                value: Self::value_of(n),
                parent: None,
                children: vec![],
                attrs: vec![],
                owner: None,
                doc: if self.is_foreign[i] { 1 } else { 0 },
            };
            if self.is_foreign[i] {
                // foreign nodes are opaque arguments: only kind and document matter
                d.nodes.push(m);
                continue;
            }
            if kind != Kind::Attr {
                m.parent = n.parent_node().and_then(|p| self.handle_of(&p));
            }
            if kind.can_have_children() {
                m.children = n.child_nodes().iter().filter_map(|c| self.handle_of(&c)).collect();
            }
            if let XmlNode::Element(e) = n {
                if let Some(attrs) = e.attributes() {
                    let mut at: Vec<xml_dom::XmlAttr> = attrs.iter().collect();
                    at.sort_by_key(|a| a.name());
                    m.attrs = at.iter().filter_map(|a| self.handle_of(&a.as_node())).collect();
                }
            }
            d.nodes.push(m);
        }
        // owners and text parents inside attributes
        for i in 0..d.nodes.len() {
            if d.nodes[i].kind == Kind::Element {
                for a in d.nodes[i].attrs.clone() {
                    d.nodes[a].owner = Some(i);
                }
            }
            if d.nodes[i].kind == Kind::Attr {
                for c in d.nodes[i].children.clone() {
                    d.nodes[c].parent = Some(i);
                }
            }
        }
        d
    }

    /// structural dump in exactly the format of MDom::core_dump
    pub fn core_dump(&self) -> String {
        let mut s = String::new();
        // owner element of attributes: derived from the elements' attribute maps
        let mut owner: HashMap<usize, usize> = HashMap::new();
        for (i, n) in self.pool.iter().enumerate() {
            if self.is_foreign[i] {
                continue;
            }
            if let XmlNode::Element(e) = n {
                if let Some(attrs) = e.attributes() {
                    for a in attrs.iter() {
                        if let Some(h) = self.handle_of(&a.as_node()) {
                            owner.insert(h, i);
                        }
                    }
                }
            }
        }
        for (i, n) in self.pool.iter().enumerate() {
            if self.is_foreign[i] {
                continue;
            }
            let kind = kind_of(n);
            let children: Vec<String> = if kind.can_have_children() {
                n.child_nodes().iter().map(|c| self.h(Some(c))).collect()
            } else {
                vec![]
            };
            let mut attrs: Vec<String> = vec![];
            if let XmlNode::Element(e) = n {
                if let Some(am) = e.attributes() {
                    for a in am.iter() {
                        attrs.push(format!("{}={}", a.name(), self.h(Some(a.as_node()))));
                    }
                }
            }
            attrs.sort();
            let parent = if kind == Kind::Attr { "-".to_string() } else { self.h(n.parent_node()) };
            s.push_str(&format!(
                "{} {} {} {:?} parent={} children=[{}] attrs=[{}] owner={}\n",
                i,
                kind.tag(),
                Self::name_of(n),
                Self::value_of(n),
                parent,
                children.join(", "),
                attrs.join(","),
                match owner.get(&i) {
                    Some(o) => o.to_string(),
                    None => "-".into(),
                }
            ));
        }
        s
    }

    /// rank vector of the order keys of all main-document handles (0 stays 0)
    pub fn order_ranks(&self) -> String {
        let keys: Vec<usize> = self
            .pool
            .iter()
            .enumerate()
            .filter(|(i, _)| !self.is_foreign[*i])
            .map(|(_, n)| n.order())
            .collect();
        let mut sorted: Vec<usize> = keys.iter().copied().filter(|k| *k != 0).collect();
        sorted.sort();
        sorted.dedup();
        let ranks: Vec<String> = keys
            .iter()
            .map(|k| if *k == 0 { "0".to_string() } else { (sorted.binary_search(k).unwrap() + 1).to_string() })
            .collect();
        ranks.join(",")
    }

    pub fn full_observation(&self) -> String {
        format!("{}--order {}\n--doc {}\n", self.core_dump(), self.order_ranks(), self.doc)
    }

    pub fn state_key(&self) -> String {
        format!("{}|{}", self.core_dump(), self.order_ranks())
    }

    // -----------------------------------------------------------------------------------------
    // applying an operation to the real DOM

    fn node(&self, h: usize) -> XmlNode {
        self.pool[h].clone()
    }

    pub fn apply_impl(&mut self, op: &Op) -> Res {
        let r = guard(|| self.apply_inner(op));
        match r {
            Ok(x) => x,
            Err(m) => Res::Panic(m),
        }
    }

    fn apply_inner(&mut self, op: &Op) -> Res {
        fn ok_node(l: &mut Live, n: XmlNode) -> Res {
            let h = l.register(&n);
            Res::Ok { ret: Some(XmlNodeId(h, kind_of(&n))), text: None }
        }
        fn err(e: xml_dom::error::Error) -> Res {
            Res::Err(map_err(&e), format!("{:?}", e))
        }
        macro_rules! nodemut {
            ($recv:expr, $call:ident ( $($arg:expr),* )) => {
                match $recv {
                    XmlNode::Element(x) => Some(x.$call($($arg),*)),
                    XmlNode::Document(x) => Some(x.$call($($arg),*)),
                    XmlNode::Attribute(x) => Some(x.$call($($arg),*)),
                    XmlNode::Text(x) => Some(x.$call($($arg),*)),
                    XmlNode::Comment(x) => Some(x.$call($($arg),*)),
                    XmlNode::CData(x) => Some(x.$call($($arg),*)),
                    XmlNode::PI(x) => Some(x.$call($($arg),*)),
                    _ => None,
                }
            };
        }
        match op {
            Op::Append(p, c) => {
                let (pn, cn) = (self.node(*p), self.node(*c));
                match nodemut!(&pn, append_child(cn.clone())) {
                    None => Res::NotApplicable,
                    Some(Ok(n)) => ok_node(self, n),
                    Some(Err(e)) => err(e),
                }
            }
            Op::InsertBefore(p, c, r) => {
                let (pn, cn) = (self.node(*p), self.node(*c));
                let rn = r.map(|r| self.node(r));
                match nodemut!(&pn, insert_before(cn.clone(), rn.as_ref())) {
                    None => Res::NotApplicable,
                    Some(Ok(n)) => ok_node(self, n),
                    Some(Err(e)) => err(e),
                }
            }
            Op::Replace(p, n, o) => {
                let (pn, nn, on) = (self.node(*p), self.node(*n), self.node(*o));
                match nodemut!(&pn, replace_child(nn.clone(), &on)) {
                    None => Res::NotApplicable,
                    Some(Ok(n)) => ok_node(self, n),
                    Some(Err(e)) => err(e),
                }
            }
            Op::Remove(p, c) => {
                let (pn, cn) = (self.node(*p), self.node(*c));
                match nodemut!(&pn, remove_child(&cn)) {
                    None => Res::NotApplicable,
                    Some(Ok(n)) => ok_node(self, n),
                    Some(Err(e)) => err(e),
                }
            }
            Op::CreateElement(name) => match self.doc.create_element(name) {
                Ok(e) => ok_node(self, e.as_node()),
                Err(e) => err(e),
            },
            Op::CreateAttribute(name) => match self.doc.create_attribute(name) {
                Ok(e) => ok_node(self, e.as_node()),
                Err(e) => err(e),
            },
            Op::CreateText(s) => {
                let n = self.doc.create_text_node(s).as_node();
                ok_node(self, n)
            }
            Op::CreateComment(s) => {
                let n = self.doc.create_comment(s).as_node();
                ok_node(self, n)
            }
            Op::CreateCData(s) => {
                let n = self.doc.create_cdata_section(s).as_node();
                ok_node(self, n)
            }
            Op::CreatePI(t, d) => match self.doc.create_processing_instruction(t, d) {
                Ok(e) => ok_node(self, e.as_node()),
                Err(e) => err(e),
            },
            Op::CreateEntityRef(name) => match self.doc.create_entity_reference(name) {
                Ok(e) => ok_node(self, e.as_node()),
                Err(e) => err(e),
            },
            Op::SetAttribute(e, n, v) => match self.node(*e) {
                XmlNode::Element(el) => match el.set_attribute(n, v) {
                    Ok(()) => {
                        self.discover();
                        Res::Ok { ret: None, text: None }
                    }
                    Err(x) => err(x),
                },
                _ => Res::NotApplicable,
            },
            Op::RemoveAttribute(e, n) => match self.node(*e) {
                XmlNode::Element(el) => match el.remove_attribute(n) {
                    Ok(()) => Res::Ok { ret: None, text: None },
                    Err(x) => err(x),
                },
                _ => Res::NotApplicable,
            },
            Op::SetAttributeNode(e, a) => match (self.node(*e), self.node(*a)) {
                (XmlNode::Element(el), XmlNode::Attribute(at)) => match el.set_attribute_node(at) {
                    Ok(old) => {
                        let ret = old.map(|o| {
                            let n = o.as_node();
                            XmlNodeId(self.register(&n), Kind::Attr)
                        });
                        Res::Ok { ret, text: None }
                    }
                    Err(x) => err(x),
                },
                _ => Res::NotApplicable,
            },
            Op::RemoveAttributeNode(e, a) => match (self.node(*e), self.node(*a)) {
                (XmlNode::Element(el), XmlNode::Attribute(at)) => match el.remove_attribute_node(at) {
                    Ok(old) => ok_node(self, old.as_node()),
                    Err(x) => err(x),
                },
                _ => Res::NotApplicable,
            },
            Op::SetNamedItem(e, a) => match (self.node(*e), self.node(*a)) {
                (XmlNode::Element(el), XmlNode::Attribute(at)) => match el.attributes() {
                    Some(map) => match map.set_named_item(at) {
                        Ok(old) => {
                            let ret = old.map(|o| {
                                let n = o.as_node();
                                XmlNodeId(self.register(&n), Kind::Attr)
                            });
                            Res::Ok { ret, text: None }
                        }
                        Err(x) => err(x),
                    },
                    None => Res::NotApplicable,
                },
                _ => Res::NotApplicable,
            },
            Op::RemoveNamedItem(e, n) => match self.node(*e) {
                XmlNode::Element(el) => match el.attributes() {
                    Some(map) => match map.remove_named_item(n) {
                        Ok(old) => ok_node(self, old.as_node()),
                        Err(x) => err(x),
                    },
                    None => Res::NotApplicable,
                },
                _ => Res::NotApplicable,
            },
            Op::Normalize(e) => match self.node(*e) {
                XmlNode::Element(x) => {
                    x.normalize();
                    self.discover();
                    Res::Ok { ret: None, text: None }
                }
                _ => Res::NotApplicable,
            },
            Op::SplitText(t, k) => match self.node(*t) {
                XmlNode::Text(x) => match x.split_text(*k) {
                    Ok(n) => ok_node(self, n.as_node()),
                    Err(e) => err(e),
                },
                XmlNode::CData(x) => match x.split_text(*k) {
                    Ok(n) => ok_node(self, n.as_node()),
                    Err(e) => err(e),
                },
                _ => Res::NotApplicable,
            },
            Op::SetNodeValue(n, v) => {
                let nn = self.node(*n);
                match nodemut!(&nn, set_node_value(v)) {
                    None => Res::NotApplicable,
                    Some(Ok(())) => {
                        self.discover();
                        Res::Ok { ret: None, text: None }
                    }
                    Some(Err(e)) => err(e),
                }
            }
            Op::AppendData(n, s) => self.chardata(*n, |c| c.append(s)),
            Op::InsertData(n, o, s) => self.chardata(*n, |c| c.insert(*o, s)),
            Op::DeleteData(n, o, k) => self.chardata(*n, |c| c.delete(*o, *k)),
            Op::ReplaceData(n, o, k, s) => self.chardata(*n, |c| c.replace(*o, *k, s)),
            Op::SetData(n, s) => self.chardata(*n, |c| c.set(s)),
            Op::SubstringData(n, o, k) => {
                let r = match self.node(*n) {
                    XmlNode::Text(x) => x.substring_data(*o, *k),
                    XmlNode::Comment(x) => x.substring_data(*o, *k),
                    XmlNode::CData(x) => x.substring_data(*o, *k),
                    _ => return Res::NotApplicable,
                };
                match r {
                    Ok(s) => Res::Ok { ret: None, text: Some(s) },
                    Err(e) => err(e),
                }
            }
        }
    }

    fn chardata(&mut self, n: usize, f: impl Fn(&CharDataRef) -> xml_dom::error::Result<()>) -> Res {
        let r = match self.node(n) {
            XmlNode::Text(x) => f(&CharDataRef::T(x)),
            XmlNode::Comment(x) => f(&CharDataRef::C(x)),
            XmlNode::CData(x) => f(&CharDataRef::D(x)),
            _ => return Res::NotApplicable,
        };
        match r {
            Ok(()) => Res::Ok { ret: None, text: None },
            Err(e) => Res::Err(map_err(&e), format!("{:?}", e)),
        }
    }

    // -----------------------------------------------------------------------------------------
    // C12: navigation invariants of the current state

    pub fn nav_violations(&self) -> Vec<(String, String)> {
        let mut v: Vec<(String, String)> = vec![];
        let mut listed_in: HashMap<usize, usize> = HashMap::new();
        for (i, n) in self.pool.iter().enumerate() {
            if self.is_foreign[i] {
                continue;
            }
            let kind = kind_of(n);
            if !kind.can_have_children() {
                continue;
            }
            let kids: Vec<XmlNode> = n.child_nodes().iter().collect();
            let hk: Vec<Option<usize>> = kids.iter().map(|c| self.handle_of(c)).collect();
            // first/last/has_child agree with the list
            let fc = n.first_child().map(|x| (kind_of(&x), x.id()));
            let lc = n.last_child().map(|x| (kind_of(&x), x.id()));
            if fc != kids.first().map(|x| (kind_of(x), x.id())) {
                v.push(("first-child".into(), format!("node {}: first_child disagrees with child_nodes", i)));
            }
            if lc != kids.last().map(|x| (kind_of(x), x.id())) {
                v.push(("last-child".into(), format!("node {}: last_child disagrees with child_nodes", i)));
            }
            if n.has_child() != !kids.is_empty() {
                v.push(("has-child".into(), format!("node {}: has_child disagrees with child_nodes", i)));
            }
            for (k, c) in kids.iter().enumerate() {
                let ch = hk[k];
                // parent link
                let p = c.parent_node();
                let p_ok = match &p {
                    Some(pp) => kind_of(pp) == kind && pp.id() == n.id(),
                    None => false,
                };
                if !p_ok && kind != Kind::Attr {
                    v.push((
                        format!("parent-link:{}", kind_of(c).tag()),
                        format!("node {:?} is listed under {} but reports parent {}", ch, i, self.h(p.clone())),
                    ));
                }
                if kind == Kind::Attr && !p_ok {
                    v.push((
                        format!("parent-link-in-attr:{}", kind_of(c).tag()),
                        format!("node {:?} is listed under attribute {} but reports parent {}", ch, i, self.h(p)),
                    ));
                }
                // siblings
                let prev = c.previous_sibling().map(|x| (kind_of(&x), x.id()));
                let next = c.next_sibling().map(|x| (kind_of(&x), x.id()));
                let want_prev = if k > 0 { Some((kind_of(&kids[k - 1]), kids[k - 1].id())) } else { None };
                let want_next = kids.get(k + 1).map(|x| (kind_of(x), x.id()));
                if prev != want_prev {
                    v.push((
                        format!("previous-sibling:{}", kind_of(c).tag()),
                        format!("child #{} of {}: previous_sibling {:?}, list says {:?}", k, i, prev, want_prev),
                    ));
                }
                if next != want_next {
                    v.push((
                        format!("next-sibling:{}", kind_of(c).tag()),
                        format!("child #{} of {}: next_sibling {:?}, list says {:?}", k, i, next, want_next),
                    ));
                }
                // no node twice in one list or in two lists
                if let Some(h) = ch {
                    if let Some(other) = listed_in.insert(h, i) {
                        v.push(("listed-twice".into(), format!("node {} is listed under {} and under {}", h, other, i)));
                    }
                }
            }
            // document constraints
            if kind == Kind::Document {
                let ne = kids.iter().filter(|c| kind_of(c) == Kind::Element).count();
                let nt = kids.iter().filter(|c| kind_of(c) == Kind::DocType).count();
                if ne > 1 {
                    v.push(("two-document-elements".into(), format!("document has {} element children", ne)));
                }
                if nt > 1 {
                    v.push(("two-doctypes".into(), format!("document has {} doctype children", nt)));
                }
            }
        }
        // no node beneath itself
        for (i, n) in self.pool.iter().enumerate() {
            if self.is_foreign[i] || kind_of(n) == Kind::Attr {
                continue;
            }
            let mut cur = n.parent_node();
            let mut steps = 0;
            while let Some(p) = cur {
                if kind_of(&p) == kind_of(n) && p.id() == n.id() {
                    v.push(("own-ancestor".into(), format!("node {} is its own ancestor", i)));
                    break;
                }
                steps += 1;
                if steps > self.pool.len() + 2 {
                    v.push(("parent-cycle".into(), format!("parent chain of node {} does not end", i)));
                    break;
                }
                cur = p.parent_node();
            }
        }
        v
    }
}

pub enum CharDataRef {
    T(xml_dom::XmlText),
    C(xml_dom::XmlComment),
    D(xml_dom::XmlCDataSection),
}

impl CharDataRef {
    fn append(&self, s: &str) -> xml_dom::error::Result<()> {
        match self {
            CharDataRef::T(x) => x.append_data(s),
            CharDataRef::C(x) => x.append_data(s),
            CharDataRef::D(x) => x.append_data(s),
        }
    }
    fn insert(&self, o: usize, s: &str) -> xml_dom::error::Result<()> {
        match self {
            CharDataRef::T(x) => x.insert_data(o, s),
            CharDataRef::C(x) => x.insert_data(o, s),
            CharDataRef::D(x) => x.insert_data(o, s),
        }
    }
    fn delete(&self, o: usize, c: usize) -> xml_dom::error::Result<()> {
        match self {
            CharDataRef::T(x) => x.delete_data(o, c),
            CharDataRef::C(x) => x.delete_data(o, c),
            CharDataRef::D(x) => x.delete_data(o, c),
        }
    }
    fn replace(&self, o: usize, c: usize, s: &str) -> xml_dom::error::Result<()> {
        match self {
            CharDataRef::T(x) => x.replace_data(o, c, s),
            CharDataRef::C(x) => x.replace_data(o, c, s),
            CharDataRef::D(x) => x.replace_data(o, c, s),
        }
    }
    fn set(&self, s: &str) -> xml_dom::error::Result<()> {
        match self {
            CharDataRef::T(x) => x.set_data(s),
            CharDataRef::C(x) => x.set_data(s),
            CharDataRef::D(x) => x.set_data(s),
        }
    }
}

// ---------------------------------------------------------------------------------------------
// one lock-step transition

#[derive(Debug, Clone)]
pub struct StepReport {
    pub applicable: bool,
    /// outcome class label, for statistics
    pub outcome: String,
    /// C13 deviations: (kind, detail, expected, observed)
    pub spec: Vec<(String, String, String, String)>,
    /// the implementation's state changed (successor differs from predecessor)
    pub changed: bool,
    pub succeeded: bool,
}

fn exc_names(v: &[Exc]) -> String {
    let mut s: Vec<String> = v.iter().map(|e| format!("{:?}", e)).collect();
    s.sort();
    s.join("|")
}

impl Live {
    /// Apply `op` to the implementation and (if still in sync) to the model; compare.
    pub fn step(&mut self, op: &Op) -> StepReport {
        let before = self.full_observation();
        let expect = self.model.as_ref().map(|m| m.apply(op));
        let res = self.apply_impl(op);
        let mut rep = StepReport { applicable: true, outcome: String::new(), spec: vec![], changed: false, succeeded: false };
        let after = match guard(|| self.full_observation()) {
            Ok(a) => a,
            Err(m) => {
                rep.outcome = "panic-in-observation".into();
                rep.spec.push((
                    "panic-after".into(),
                    panic_site(&m),
                    "the document can be observed after the call".into(),
                    m,
                ));
                self.model = None;
                rep.changed = true;
                return rep;
            }
        };
        rep.changed = after != before;
        match &res {
            Res::NotApplicable => {
                rep.applicable = false;
                rep.outcome = "n/a".into();
                return rep;
            }
            Res::Panic(m) => {
                rep.outcome = "PANIC".into();
                rep.spec.push(("panic".into(), panic_site(m), "a value or a DOM exception".into(), m.clone()));
                self.model = None;
            }
            Res::Err(class, msg) => {
                rep.outcome = format!("Err({:?})", class);
                if rep.changed {
                    let (c, e, o) = crate::checks::c01::classify_diff(&before, &after);
                    rep.spec.push((
                        "state-changed-on-failure".into(),
                        format!("{:?}:{}", class, c.split(':').next().unwrap_or("")),
                        format!("the call failed ({}), so the document must be unchanged; first difference: {}", msg, e),
                        o,
                    ));
                    self.model = None;
                }
                if let Some(ex) = &expect {
                    if !(ex.any_error || ex.fail.contains(class)) {
                        let want = if ex.fail.is_empty() {
                            "success with the DOM Level 1 effect".to_string()
                        } else {
                            format!("one of {}", exc_names(&ex.fail))
                        };
                        rep.spec.push((
                            if ex.fail.is_empty() { "unexpected-failure".into() } else { "wrong-exception".into() },
                            format!("{:?}", class),
                            want,
                            format!("{:?} ({})", class, msg),
                        ));
                    }
                }
            }
            Res::Ok { ret, text } => {
                rep.succeeded = true;
                rep.outcome = "Ok".into();
                if let Some(ex) = expect {
                    if ex.ok.is_empty() {
                        rep.spec.push((
                            "unexpected-success".into(),
                            exc_names(&ex.fail),
                            if ex.fail.is_empty() { "an error".to_string() } else { format!("one of {}", exc_names(&ex.fail)) },
                            "Ok".into(),
                        ));
                        self.model = None;
                    } else {
                        let core = self.core_dump();
                        let mut matched = None;
                        for (k, (succ, want_ret)) in ex.ok.iter().enumerate() {
                            if succ.core_dump() == core {
                                let ret_ok = match (want_ret, ret) {
                                    (Some(w), Some(r)) => *w == r.0,
                                    (Some(_), None) => true,
                                    (None, _) => true,
                                };
                                if ret_ok {
                                    matched = Some(k);
                                    break;
                                }
                            }
                        }
                        match matched {
                            Some(k) => {
                                if let (Some(want), Some(got)) = (&ex.text, text) {
                                    if want != got {
                                        rep.spec.push(("wrong-result".into(), "text".into(), format!("{:?}", want), format!("{:?}", got)));
                                    }
                                }
                                self.model = Some(ex.ok[k].0.clone());
                            }
                            None => {
                                let want = ex.ok[0].0.core_dump();
                                let (c, e, o) = crate::checks::c01::classify_diff(&want, &core);
                                let same_tree = ex.ok.iter().any(|(s, _)| s.core_dump() == core);
                                rep.spec.push((
                                    if same_tree { "wrong-return-value".into() } else { "wrong-effect".into() },
                                    c.split(':').next().unwrap_or("").to_string(),
                                    format!("{}\n--- expected state\n{}", e, want),
                                    format!("{}\n--- observed state\n{}(returned {:?})", o, core, ret),
                                ));
                                self.model = None;
                            }
                        }
                    }
                }
            }
        }
        rep
    }
}

// ---------------------------------------------------------------------------------------------
// operation alphabets

pub struct Alphabet {
    pub structural: bool,
    pub creations: bool,
    pub attributes: bool,
    pub split: bool,
    pub set_value: bool,
    pub max_creations: usize,
    pub names: &'static [&'static str],
    pub values: &'static [&'static str],
    /// character-data operations (C16 / C15): argument strings; empty = off
    pub chardata: &'static [&'static str],
    /// offsets / counts beyond the length that are tried (len+1 ..= len+extra) plus usize::MAX
    pub chardata_extra: usize,
    /// false: no replace_data / substring_data (C15: a replace is a delete followed by an insert)
    pub chardata_full: bool,
    /// only `append_child(attached element, detached node)` instead of the full structural product
    pub attach_only: bool,
    /// further names for set_attribute / remove_attribute only (namespace declarations)
    pub attr_names: &'static [&'static str],
}

pub fn count_creations(h: &[Op]) -> usize {
    h.iter()
        .filter(|o| {
            matches!(
                o,
                Op::CreateElement(_)
                    | Op::CreateText(_)
                    | Op::CreateComment(_)
                    | Op::CreateCData(_)
                    | Op::CreatePI(..)
                    | Op::CreateAttribute(_)
                    | Op::CreateEntityRef(_)
            )
        })
        .count()
}

impl Live {
    pub fn can_receive(&self, h: usize) -> bool {
        !self.is_foreign[h]
            && matches!(
                kind_of(&self.pool[h]),
                Kind::Element | Kind::Document | Kind::Attr | Kind::Text | Kind::Comment | Kind::CData | Kind::PI
            )
    }

    /// every enabled operation in the current state
    pub fn enabled(&self, a: &Alphabet, history: &[Op]) -> Vec<Op> {
        let n = self.pool.len();
        let mut ops = vec![];
        let receivers: Vec<usize> = (0..n).filter(|h| self.can_receive(*h)).collect();
        if a.structural {
            for &p in &receivers {
                let kids: Vec<usize> = if kind_of(&self.pool[p]).can_have_children() {
                    self.pool[p].child_nodes().iter().filter_map(|c| self.handle_of(&c)).collect()
                } else {
                    vec![]
                };
                // reference arguments: the children, plus exotic ones (a non-child, a foreign node)
                let non_child = (0..n).find(|h| !self.is_foreign[*h] && !kids.contains(h) && *h != p);
                let foreign = (0..n).find(|h| self.is_foreign[*h] && kind_of(&self.pool[*h]) == Kind::Element);
                let mut refs: Vec<usize> = kids.clone();
                refs.extend(non_child);
                refs.extend(foreign);
                for c in 0..n {
                    ops.push(Op::Append(p, c));
                    ops.push(Op::InsertBefore(p, c, None));
                    for &r in &refs {
                        ops.push(Op::InsertBefore(p, c, Some(r)));
                        ops.push(Op::Replace(p, c, r));
                    }
                    if !refs.contains(&c) {
                        ops.push(Op::InsertBefore(p, c, Some(c)));
                        ops.push(Op::Replace(p, c, c));
                    }
                    ops.push(Op::Remove(p, c));
                }
            }
        }
        if a.attach_only {
            for &p in &receivers {
                if kind_of(&self.pool[p]) != Kind::Element || self.pool[p].parent_node().is_none() {
                    continue;
                }
                for c in 0..n {
                    let cn = &self.pool[c];
                    let detached = !self.is_foreign[c]
                        && !matches!(kind_of(cn), Kind::Document | Kind::Attr | Kind::DocType)
                        && cn.parent_node().is_none();
                    if detached {
                        ops.push(Op::Append(p, c));
                    }
                }
            }
        }
        if a.creations && count_creations(history) < a.max_creations {
            for name in a.names {
                ops.push(Op::CreateElement(name.to_string()));
                ops.push(Op::CreateAttribute(name.to_string()));
                ops.push(Op::CreatePI(name.to_string(), "d".into()));
                ops.push(Op::CreateEntityRef(name.to_string()));
            }
            ops.push(Op::CreateEntityRef("amp".into()));
            for v in a.values {
                ops.push(Op::CreateText(v.to_string()));
                ops.push(Op::CreateComment(v.to_string()));
                ops.push(Op::CreateCData(v.to_string()));
                ops.push(Op::CreatePI("t".into(), v.to_string()));
            }
        }
        if a.attributes {
            let elems: Vec<usize> = (0..n).filter(|h| !self.is_foreign[*h] && kind_of(&self.pool[*h]) == Kind::Element).collect();
            let attrs: Vec<usize> = (0..n).filter(|h| kind_of(&self.pool[*h]) == Kind::Attr).collect();
            for &e in &elems {
                for name in a.names.iter().chain(a.attr_names.iter()) {
                    for v in a.values {
                        ops.push(Op::SetAttribute(e, name.to_string(), v.to_string()));
                    }
                    ops.push(Op::RemoveAttribute(e, name.to_string()));
                    ops.push(Op::RemoveNamedItem(e, name.to_string()));
                }
                for &at in &attrs {
                    ops.push(Op::SetAttributeNode(e, at));
                    ops.push(Op::RemoveAttributeNode(e, at));
                    ops.push(Op::SetNamedItem(e, at));
                }
            }
        }
        if a.split {
            for h in 0..n {
                if !self.is_foreign[h] && kind_of(&self.pool[h]) == Kind::Element {
                    ops.push(Op::Normalize(h));
                }
            }
            for h in 0..n {
                if self.is_foreign[h] {
                    continue;
                }
                if matches!(kind_of(&self.pool[h]), Kind::Text | Kind::CData) {
                    let len = Live::value_of(&self.pool[h]).chars().count();
                    for k in 0..=len + 1 {
                        ops.push(Op::SplitText(h, k));
                    }
                }
            }
        }
        if !a.chardata.is_empty() {
            for h in 0..n {
                if self.is_foreign[h] || !matches!(kind_of(&self.pool[h]), Kind::Text | Kind::Comment | Kind::CData) {
                    continue;
                }
                let len = Live::value_of(&self.pool[h]).chars().count();
                let mut nums: Vec<usize> = (0..=len + a.chardata_extra).collect();
                nums.push(usize::MAX);
                for &o in &nums {
                    for &c in &nums {
                        ops.push(Op::DeleteData(h, o, c));
                        if a.chardata_full {
                            ops.push(Op::SubstringData(h, o, c));
                            for s in a.chardata {
                                ops.push(Op::ReplaceData(h, o, c, s.to_string()));
                            }
                        }
                    }
                    for s in a.chardata {
                        ops.push(Op::InsertData(h, o, s.to_string()));
                    }
                    if matches!(kind_of(&self.pool[h]), Kind::Text | Kind::CData) && !a.split {
                        ops.push(Op::SplitText(h, o));
                    }
                }
                for s in a.chardata {
                    ops.push(Op::AppendData(h, s.to_string()));
                    ops.push(Op::SetData(h, s.to_string()));
                }
            }
        }
        if a.set_value {
            for h in 0..n {
                if self.can_receive(h) {
                    for v in a.values {
                        ops.push(Op::SetNodeValue(h, v.to_string()));
                    }
                }
            }
        }
        ops
    }
}

// ---------------------------------------------------------------------------------------------
// the BFS space: one case = one frontier state (its history), expanded by every enabled op

pub struct InitialDoc {
    pub text: &'static str,
    pub foreign: Option<&'static str>,
    pub expanded: bool,
}

pub struct Monitors {
    pub tree: bool,  // C12
    pub spec: bool,  // C13
    pub order: bool, // C14
    pub chardata: bool, // C16: length() agrees with data() on every character-data node
    pub serial: bool, // C15: after a successful call the document re-parses to what the DOM reports
}

pub struct DomBfs {
    pub prop: &'static str,
    pub docs: Vec<InitialDoc>,
    pub alphabet: Alphabet,
    pub monitors: Monitors,
    /// frontier: (doc index, history)
    pub frontier: Vec<(usize, Vec<Op>)>,
    /// emit successors (false at the last depth)
    pub expand: bool,
    pub order_queries: &'static [&'static str],
    /// C14: queries evaluated BEFORE and after every transition with one long-lived evaluation context: what they select
    /// after the edit must not depend on their having been evaluated before it
    pub warm_queries: &'static [&'static str],
    /// per initial document: histories longer than this are not generated (empty = the stage depth alone decides)
    pub max_depth: Vec<usize>,
}

pub fn parse_frontier(input: &[String]) -> Vec<(usize, Vec<Op>)> {
    input
        .iter()
        .filter_map(|l| {
            let (d, h) = l.split_once('\u{1d}')?;
            Some((d.parse().ok()?, decode_history(h)))
        })
        .collect()
}

pub fn encode_state(doc: usize, h: &[Op]) -> String {
    format!("{}\u{1d}{}", doc, encode_history(h))
}

pub fn describe_history(l: &Live, h: &[Op]) -> String {
    let _ = l;
    h.iter()
        .map(|o| o.encode().replace(FS, " "))
        .collect::<Vec<_>>()
        .join(" ; ")
}

impl DomBfs {
    pub fn replay(&self, doc: usize, history: &[Op]) -> Option<Live> {
        let d = &self.docs[doc];
        let mut l = Live::new(d.text, d.foreign, d.expanded)?;
        for op in history {
            let _ = l.step(op);
        }
        Some(l)
    }

    fn case_text(&self, doc: usize, history: &[Op], op: Option<&Op>) -> String {
        let d = &self.docs[doc];
        let mut s = format!(
            "document {} ({}){}\nhistory: [{}]",
            obs::q(d.text),
            if d.expanded { "merged-text view" } else { "raw view" },
            match d.foreign {
                Some(f) => format!(" + foreign document {}", obs::q(f)),
                None => String::new(),
            },
            history.iter().map(|o| o.encode().replace(FS, " ")).collect::<Vec<_>>().join(" ; ")
        );
        if let Some(op) = op {
            s.push_str(&format!("\nthen: {}  [{}]", op.encode().replace(FS, " "), op.method()));
        }
        if let Some(l) = self.replay(doc, history) {
            s.push_str("\nhandles before the call:\n");
            s.push_str(&l.core_dump());
        }
        s
    }
}

/// signature features of the arguments of an op in the state before the call
fn arg_features(l: &Live, op: &Op) -> String {
    let k = |h: &usize| kind_of(&l.pool[*h]).tag();
    let rel = |p: &usize, c: &usize| -> &'static str {
        if l.is_foreign[*c] {
            return "foreign";
        }
        if p == c {
            return "self";
        }
        let pn = &l.pool[*p];
        let cn = &l.pool[*c];
        if let Some(m) = &l.model {
            if m.nodes[*c].parent == Some(*p) {
                return "child";
            }
            if m.is_ancestor_or_self(*c, *p) {
                return "ancestor";
            }
            if m.nodes[*c].kind == Kind::Attr {
                return if m.nodes[*c].owner.is_some() { "owned-attr" } else { "free-attr" };
            }
            if m.nodes[*c].parent.is_none() {
                return "detached";
            }
            return "attached";
        }
        let _ = (pn, cn);
        "node"
    };
    match op {
        Op::Append(p, c) => format!("{}<-{}:{}", k(p), k(c), rel(p, c)),
        Op::InsertBefore(p, c, r) => format!(
            "{}<-{}:{}@{}",
            k(p),
            k(c),
            rel(p, c),
            match r {
                None => "end".to_string(),
                Some(r) if r == c => "same".to_string(),
                Some(r) => rel(p, r).to_string(),
            }
        ),
        Op::Replace(p, c, r) => format!("{}<-{}:{}@{}", k(p), k(c), rel(p, c), if r == c { "same" } else { rel(p, r) }),
        Op::Remove(p, c) => format!("{}-{}:{}", k(p), k(c), rel(p, c)),
        Op::SetAttributeNode(e, a) | Op::SetNamedItem(e, a) | Op::RemoveAttributeNode(e, a) => format!("{}:{}", k(e), rel(e, a)),
        Op::SetNodeValue(n, v) => format!("{}:{}", k(n), str_class(v)),
        Op::SetAttribute(_, n, v) => format!("{}={}", str_class(n), str_class(v)),
        Op::Normalize(e) => format!("{}:{}", k(e), if l.pool[*e].parent_node().is_some() { "attached" } else { "detached" }),
        Op::SplitText(t, o) => {
            let len = Live::value_of(&l.pool[*t]).chars().count();
            format!(
                "{}:{}:{}",
                k(t),
                if *o > len { "beyond" } else if *o == len { "end" } else if *o == 0 { "start" } else { "inside" },
                if l.pool[*t].parent_node().is_some() { "attached" } else { "detached" }
            )
        }
        Op::CreateElement(n) | Op::CreateAttribute(n) | Op::CreateEntityRef(n) => str_class(n),
        Op::CreatePI(t, d) => format!("{}:{}", str_class(t), str_class(d)),
        Op::CreateText(s) | Op::CreateComment(s) | Op::CreateCData(s) => str_class(s),
        Op::RemoveAttribute(..) | Op::RemoveNamedItem(..) => "name".into(),
        Op::SubstringData(t, o, c) | Op::DeleteData(t, o, c) | Op::ReplaceData(t, o, c, _) => {
            let len = Live::value_of(&l.pool[*t]).chars().count();
            format!("{}:{}:{}", k(t), off_class(*o, len), count_class(*o, *c, len))
        }
        Op::InsertData(t, o, _) => {
            let len = Live::value_of(&l.pool[*t]).chars().count();
            format!("{}:{}", k(t), off_class(*o, len))
        }
        Op::AppendData(t, s) | Op::SetData(t, s) => format!("{}:{}", k(t), str_class(s)),
        _ => String::new(),
    }
}

pub fn off_class(o: usize, len: usize) -> &'static str {
    if o == usize::MAX {
        "max"
    } else if o > len {
        "beyond"
    } else if o == len {
        "end"
    } else if o == 0 {
        "start"
    } else {
        "inside"
    }
}

pub fn count_class(o: usize, c: usize, len: usize) -> &'static str {
    if c == usize::MAX {
        "max"
    } else if o <= len && c > len - o {
        "past-end"
    } else if o <= len && c == len - o {
        "to-end"
    } else if c == 0 {
        "zero"
    } else {
        "within"
    }
}

pub fn str_class(s: &str) -> String {
    use crate::model::chars;
    if s.is_empty() {
        "empty".into()
    } else if s.eq_ignore_ascii_case("xml") {
        "xml".into()
    } else if chars::is_ncname(s) {
        "ncname".into()
    } else if chars::is_qname(s) {
        "qname".into()
    } else if chars::is_name(s) {
        "name-not-qname".into()
    } else if s.contains('<') || s.contains('&') {
        "markup".into()
    } else if s.chars().all(chars::is_space) {
        "space".into()
    } else if s.contains(' ') {
        "text-with-space".into()
    } else {
        "non-name".into()
    }
}

impl Space for DomBfs {
    fn len(&self) -> u64 {
        self.frontier.len() as u64
    }
    fn describe(&self, idx: u64) -> String {
        let (doc, h) = &self.frontier[idx as usize];
        self.case_text(*doc, h, None)
    }
    fn run(&self, idx: u64, sink: &mut Sink) {
        // a panic of the implementation outside a guarded call (while a state is observed: order keys, navigation,
        // serialization) is a finding about the state, not a failure of the harness
        if let Err(m) = guard(|| self.run_guarded(idx, &mut *sink)) {
            if !m.contains("/repo/") {
                panic!("{}", m);
            }
            let (doc, history) = &self.frontier[idx as usize];
            sink.finding(Finding {
                sig: format!("panic-while-observing/{}", panic_site(&m)),
                what: "an accessor of the implementation panicked while the states reached from this history were observed".into(),
                case: self.case_text(*doc, history, None),
                expected: "every accessor returns a value for every reachable state".into(),
                observed: m,
            });
        }
    }
}

impl DomBfs {
    fn run_guarded(&self, idx: u64, sink: &mut Sink) {
        SKIP_DEFAULTED.with(|c| c.set(self.prop == "C14"));
        let (doc, history) = &self.frontier[idx as usize];
        let mut live = match self.replay(*doc, history) {
            Some(l) => l,
            None => {
                sink.count("unparsable-initial-document", 1);
                return;
            }
        };
        sink.count("states", 1);
        if idx == 0 {
            sink.sample(|| self.case_text(*doc, history, None));
        }
        let ops = live.enabled(&self.alphabet, history);
        let base_obs = live.full_observation();
        // C12: a violated invariant persists in every later state; it is attributed to the transition
        // that introduces it (every bad state is reached from a good one, and the initial states are
        // judged themselves), so only violations absent from the predecessor state are reported.
        let base_nav: std::collections::BTreeSet<(String, String)> = if self.monitors.tree {
            match guard(|| live.nav_violations()) {
                Ok(v) => v.into_iter().collect(),
                Err(_) => Default::default(),
            }
        } else {
            Default::default()
        };
        // C14: same attribution rule; monitors of the frontier state itself
        let base_order: std::collections::BTreeSet<String> = if self.monitors.order {
            let fs = crate::checks::c14::order_monitors(&live, self.order_queries);
            if history.is_empty() {
                for f in &fs {
                    sink.finding(Finding {
                        sig: format!("{}/initial-state", f.0),
                        what: f.1.clone(),
                        case: self.case_text(*doc, history, None),
                        expected: f.2.clone(),
                        observed: f.3.clone(),
                    });
                }
            }
            fs.into_iter().map(|f| f.0).collect()
        } else {
            Default::default()
        };
        // C15: a document that does not survive print -> parse stays that way; only the transition
        // that makes it so is reported, and such a state is not expanded
        if self.monitors.serial {
            if let Some((kind, exp, obsd)) = crate::checks::c15::serial_monitor(&live) {
                if history.is_empty() {
                    sink.finding(Finding {
                        sig: format!("{}/initial-state", kind),
                        what: format!("the serialization of a freshly parsed document {}", kind),
                        case: self.case_text(*doc, history, None),
                        expected: exp,
                        observed: obsd,
                    });
                }
                sink.count("states-already-broken", 1);
                return;
            }
        }
        if self.monitors.tree && history.is_empty() {
            let mut seen = std::collections::BTreeSet::new();
            for (kind, detail) in &base_nav {
                if seen.insert(kind.clone()) {
                    sink.finding(Finding {
                        sig: format!("{}/initial-state", kind),
                        what: format!("navigation views disagree on a freshly parsed document ({})", kind),
                        case: self.case_text(*doc, history, None),
                        expected: "child_nodes / parent_node / first_child / last_child / siblings agree".into(),
                        observed: detail.clone(),
                    });
                }
            }
        }
        for op in ops {
            // a fresh replay is needed only if the previous call changed the state
            if live.full_observation() != base_obs {
                live = match self.replay(*doc, history) {
                    Some(l) => l,
                    None => return,
                };
            }
            let feats = arg_features(&live, &op);
            let was_in_sync = live.model.is_some();
            let rep = live.step(&op);
            if !rep.applicable {
                continue;
            }
            sink.count("transitions", 1);
            sink.note(&format!("outcomes:{}", op.method()), &rep.outcome);
            if rep.changed || rep.succeeded {
                sink.count("nontrivial", 1);
            }
            let mut h2 = history.clone();
            h2.push(op.clone());
            if self.monitors.spec {
                if was_in_sync {
                    sink.count("validated", 1);
                }
                for (kind, detail, exp, obsd) in &rep.spec {
                    sink.finding(Finding {
                        sig: format!("{}/{}/{}/{}", kind, op.method(), detail, feats),
                        what: format!("{}: {} ({})", op.method(), kind, detail),
                        case: self.case_text(*doc, history, Some(&op)),
                        expected: exp.clone(),
                        observed: obsd.clone(),
                    });
                }
            }
            let panicked = rep.outcome.starts_with("PANIC") || rep.outcome.starts_with("panic");
            if panicked {
                // a panic is C13's violation; the state it leaves behind is not a state of the
                // DOM's state machine and is neither judged nor expanded by C12 / C14
                sink.count("panicking-transitions", 1);
            }
            if self.monitors.tree && !panicked {
                sink.count("validated", 1);
                // a panic while navigating is a violation too
                match guard(|| live.nav_violations()) {
                    Ok(vs) => {
                        let mut seen = std::collections::BTreeSet::new();
                        for (kind, detail) in vs {
                            if base_nav.contains(&(kind.clone(), detail.clone())) {
                                continue;
                            }
                            if !seen.insert(kind.clone()) {
                                continue;
                            }
                            sink.finding(Finding {
                                sig: format!("{}/after:{}:{}/{}", kind, op.method(), if rep.succeeded { "ok" } else { "failed" }, feats),
                                what: format!("navigation views disagree after {} ({})", op.method(), kind),
                                case: self.case_text(*doc, history, Some(&op)),
                                expected: "child_nodes / parent_node / first_child / last_child / siblings agree; no node twice or beneath itself".into(),
                                observed: format!("{}\n--- state\n{}", detail, live.core_dump()),
                            });
                        }
                    }
                    Err(m) => sink.finding(Finding {
                        sig: format!("panic-in-navigation/{}/{}", op.method(), panic_site(&m)),
                        what: "panic while navigating the document after a call".into(),
                        case: self.case_text(*doc, history, Some(&op)),
                        expected: "navigation works".into(),
                        observed: m,
                    }),
                }
            }
            if self.monitors.chardata && !panicked {
                for (i, n) in live.pool.iter().enumerate() {
                    if live.is_foreign[i] {
                        continue;
                    }
                    let r = guard(|| match n {
                        XmlNode::Text(x) => Some((x.length(), x.data())),
                        XmlNode::Comment(x) => Some((x.length(), x.data())),
                        XmlNode::CData(x) => Some((x.length(), x.data())),
                        _ => None,
                    });
                    let bad = match r {
                        Ok(Some((len, Ok(d)))) if len != d.chars().count() => Some(format!("length() = {} but data() = {:?} has {} characters", len, d, d.chars().count())),
                        Ok(Some((_, Err(e)))) => Some(format!("data() failed: {:?}", e)),
                        Err(m) => Some(format!("panic: {}", m)),
                        _ => None,
                    };
                    if let Some(b) = bad {
                        sink.finding(Finding {
                            sig: format!("length-disagrees/{}/after:{}", kind_of(n).tag(), op.method()),
                            what: "length() does not count the characters of data()".into(),
                            case: self.case_text(*doc, history, Some(&op)),
                            expected: "length() == data().chars().count()".into(),
                            observed: b,
                        });
                    }
                }
            }
            let mut broken = false;
            if self.monitors.serial && !panicked && rep.succeeded && rep.changed {
                sink.count("validated", 1);
                if let Some((kind, exp, obsd)) = crate::checks::c15::serial_monitor(&live) {
                    broken = true;
                    sink.finding(Finding {
                        sig: format!("{}/{}/after:{}", kind, crate::checks::c15::op_features(&live, &op), op.method()),
                        what: format!("after a successful {} the serialization {}", op.method(), kind),
                        case: self.case_text(*doc, history, Some(&op)),
                        expected: exp,
                        observed: obsd,
                    });
                }
            }
            if self.monitors.order && !panicked && rep.changed {
                sink.count("validated", 1);
                for f in crate::checks::c14::order_monitors(&live, self.order_queries) {
                    if base_order.contains(&f.0) {
                        continue;
                    }
                    sink.finding(Finding {
                        sig: format!("{}/after:{}/{}", f.0, op.method(), feats),
                        what: f.1,
                        case: self.case_text(*doc, history, Some(&op)),
                        expected: f.2,
                        observed: f.3,
                    });
                }
            }
            if self.monitors.order && !panicked && rep.changed && !self.warm_queries.is_empty() {
                // the same transition from the same state, but on a document that has been queried before the edit, with
                // one evaluation context kept across the edit
                if let Some(mut lw) = self.replay(*doc, history) {
                    let mut kept = crate::checks::c14::context();
                    for q in self.warm_queries {
                        let _ = guard(|| crate::checks::c14::query_positions(&lw.doc, q, &mut kept));
                    }
                    let _ = lw.step(&op);
                    for q in self.warm_queries {
                        sink.count("validated", 1);
                        let warm = guard(|| crate::checks::c14::query_positions(&lw.doc, q, &mut kept)).map(|r| r.map(|x| x.0));
                        let cold = guard(|| crate::checks::c14::query_positions(&live.doc, q, &mut crate::checks::c14::context())).map(|r| r.map(|x| x.0));
                        if warm != cold {
                            sink.finding(Finding {
                                sig: format!("query-depends-on-earlier-queries/{}/after:{}/{}", q, op.method(), feats),
                                what: format!("query {} after the edit answers differently when queries were evaluated before the edit (same evaluation context kept)", q),
                                case: self.case_text(*doc, history, Some(&op)),
                                expected: format!("{:?}  (no query before the edit, fresh context)", cold),
                                observed: format!("{:?}", warm),
                            });
                        }
                    }
                }
            }
            let within_depth = self.max_depth.get(*doc).map(|m| h2.len() < *m).unwrap_or(true);
            if self.expand && within_depth && rep.changed && !panicked && !broken {
                // C13 explores only states where model and implementation still agree
                if !self.monitors.spec || live.model.is_some() || self.docs[*doc].expanded {
                    sink.successor(format!("{}|{:016x}", doc, crate::engine::proto::fnv64(&live.state_key())), encode_state(*doc, &h2));
                }
            }
        }
    }
}
