//! C06 — XPath parsing and evaluation are total.

use crate::checks::xgen;
use crate::checks::xp::*;
use crate::engine::{panic_site, Check, Finding, Meta, Sink, Space, Tier};
use crate::model::adoc::ADoc;
use crate::model::xpath::canonical;

pub struct C06C;
pub static C06: C06C = C06C;

pub const TOKENS: &[&str] = &[
    "/", "//", ".", "..", "@", "*", "a", "p:a", "::", "child", "parent", "ancestor", "preceding-sibling", "[", "]", "(", ")", ",", "|", "+", "-", "=", "<", "1", "1.", ".5",
    "'s'", "$x", "id", "text", "processing-instruction", "and", "div", " ", "node", "last", "!=", "\"", "DIV", "Mod", "2",
];

fn three_docs() -> Vec<ADoc> {
    use crate::model::adoc::{at, doc, e, el, tx};
    let d = xgen::rich_docs();
    // the fourth document carries xml:lang values shorter than, longer than and unlike ASCII arguments
    let langs = doc(el(
        "r",
        vec![at("xml:lang", "en")],
        vec![e("a", vec![at("xml:lang", "en-US")], vec![tx("t")]), e("b", vec![at("xml:lang", "日本語")], vec![]), e("c", vec![at("xml:lang", "")], vec![]), e("d", vec![at("xml:lang", "é")], vec![])],
    ));
    // accepted by the implementation although it breaks the namespace constraint on reserved names: another prefix bound
    // to the XML namespace name (totality is demanded for every accepted document)
    let reserved = doc(el("r", vec![at("xmlns:q", "http://www.w3.org/XML/1998/namespace"), at("q:lang", "en")], vec![e("a", vec![], vec![tx("t")])]));
    vec![d[0].clone(), d[1].clone(), d[4].clone(), langs, d[9].clone(), reserved]
}

/// 28 elements of one name nested in each other, an attribute on every second: the descendant lists of nested context nodes overlap
fn deep_doc() -> ADoc {
    use crate::model::adoc::*;
    let mut cur = el("a", vec![at("x", "0")], vec![tx("t")]);
    for i in 1..28 {
        let attrs = if i % 2 == 0 { vec![at("x", &i.to_string())] } else { vec![] };
        cur = el("a", attrs, vec![ANode::Elem(cur)]);
    }
    doc(el("r", vec![], vec![ANode::Elem(cur)]))
}

/// four namespace nodes per element and a DTD-defaulted attribute on four elements: nodes without an order key of their own
fn keyless_nodes_doc() -> ADoc {
    use crate::model::adoc::*;
    let mut d = doc(el(
        "r",
        vec![at("xmlns:p", "urn:p"), at("xmlns:q", "urn:q"), at("xmlns:s", "urn:s")],
        vec![e("b", vec![], vec![]), e("b", vec![], vec![]), e("b", vec![], vec![]), e("b", vec![], vec![])],
    ));
    d.doctype = Some(ADoctype {
        name: "r".into(),
        public: None,
        system: None,
        decls: vec![ADecl::AttList { elem: "b".into(), defs: vec![AAttDef { name: "a".into(), ty: "CDATA".into(), default: ADefault::Value { fixed: false, value: vec![Part::Text("d".into())] } }] }],
        subset: true,
    });
    d
}

fn classify(o: &Outcome) -> &'static str {
    match o {
        Outcome::Val(_) => "Ok",
        Outcome::Err(_) => "Err",
        Outcome::Panic(_) => "PANIC",
    }
}

thread_local! {
    static FX: std::cell::RefCell<Option<Vec<Fixture>>> = const { std::cell::RefCell::new(None) };
}

fn with_fixtures<R>(docs: &[ADoc], f: impl FnOnce(&[Fixture]) -> R) -> R {
    FX.with(|cell| {
        let mut b = cell.borrow_mut();
        if b.is_none() {
            *b = Some(docs.iter().filter_map(|d| fixture(d).ok()).collect());
        }
        f(b.as_ref().unwrap())
    })
}

fn judge(expr: &str, fxs: &[Fixture], how: &str, must_be_empty_or_error: bool, sink: &mut Sink) {
    for fx in fxs {
        sink.count("transitions", 1);
        let b: Bindings = vec![(Some("p".into()), "v".into())];
        let o = run_query(&fx.doc, expr, &b, None);
        sink.count("validated", 1);
        sink.note("outcomes", classify(&o));
        match &o {
            Outcome::Val(v) => {
                sink.count("nontrivial", 1);
                if must_be_empty_or_error && v != "nodes[]" {
                    sink.finding(Finding {
                        sig: format!("unsupported-feature-answers/{}", how),
                        what: "an unsupported feature produced a result instead of an error or an empty node-set".into(),
                        case: format!("{}\non {}", expr, fx.text),
                        expected: "an error or an empty node-set".into(),
                        observed: v.clone(),
                    });
                }
            }
            Outcome::Err(_) => {}
            Outcome::Panic(m) => sink.finding(Finding {
                sig: format!("panic/{}/{}", panic_site(m), how),
                what: "query panicked".into(),
                case: format!("{}\non {}", expr, fx.text),
                expected: "a value or an error".into(),
                observed: m.clone(),
            }),
        }
    }
}

// ---- stage garbage: all token strings up to length L

struct Garbage {
    docs: Vec<ADoc>,
    maxlen: u32,
    n: u64,
}

impl Garbage {
    fn new(maxlen: u32) -> Garbage {
        let a = TOKENS.len() as u64;
        let mut n = 0;
        let mut p = 1;
        for _ in 0..maxlen {
            p *= a;
            n += p;
        }
        Garbage { docs: three_docs(), maxlen, n }
    }
    fn text(&self, mut idx: u64) -> String {
        let a = TOKENS.len() as u64;
        let mut len = 1;
        let mut p = a;
        while idx >= p {
            idx -= p;
            p *= a;
            len += 1;
        }
        let mut v = vec![];
        for _ in 0..len {
            v.push(TOKENS[(idx % a) as usize]);
            idx /= a;
        }
        v.reverse();
        v.concat()
    }
}

const CHUNK: u64 = 512;

impl Space for Garbage {
    fn len(&self) -> u64 {
        (self.n + CHUNK - 1) / CHUNK
    }
    fn describe(&self, idx: u64) -> String {
        format!("token strings {}..{} of all strings up to length {} over {} tokens, first: {:?}", idx * CHUNK, (idx + 1) * CHUNK, self.maxlen, TOKENS.len(), self.text(idx * CHUNK))
    }
    fn run(&self, idx: u64, sink: &mut Sink) {
        with_fixtures(&self.docs, |fxs| {
            for k in idx * CHUNK..((idx + 1) * CHUNK).min(self.n) {
                let s = self.text(k);
                sink.count("states", 1);
                if k % 100_003 == 7 {
                    sink.sample(|| s.clone());
                }
                judge(&s, fxs, "token-string", false, sink);
            }
        })
    }
}

// ---- stage listed: well-typed expressions (C05 families) and the unsupported / ill-typed catalogue

struct Listed {
    docs: Vec<ADoc>,
    cases: Vec<(String, &'static str, bool)>,
}

fn catalogue() -> Vec<(String, &'static str, bool)> {
    let mut v: Vec<(String, &'static str, bool)> = vec![];
    // unsupported features in every syntactic position: error or empty node-set
    for f in ["$v", "id('x')", "id(/r)", "id(1)"] {
        for t in [
            "{}", "{}/a", "({})", "({})[1]", "//*[{}]", "//*[{} = 1]", "count({})", "string({})", "//a | {}", "{} | //a", "not({})", "//*[position() = {}]", "-{}", "{} + 1",
            "/r/*[{}][1]", "concat('a', {})", "//@*[{}]", "boolean({})",
        ] {
            let must = !t.contains("not(") && !t.contains("count(") && !t.contains("string(") && !t.contains("boolean(") && !t.contains("concat(") && !t.contains('+') && !t.contains('-') && !t.contains("//a |") && !t.contains("| //a");
            v.push((t.replace("{}", f), "unsupported", must));
        }
    }
    // steps that select nothing
    for e in [
        "/..", "/parent::node()", "/parent::*", "/../a", "/ancestor::node()", "/ancestor-or-self::node()/..", "//@*/..", "//@*/parent::node()/..", "//@*/../..", "//@*/ancestor::node()",
        "//namespace::*/..", "//namespace::*/parent::node()", "//namespace::*/ancestor::*", "//namespace::*/following::*", "//namespace::*/preceding-sibling::node()", "//@*/following-sibling::node()",
        "//@*/preceding::node()", "//@*/following::node()", "//@*/child::node()", "//@*/@*", "//@*/namespace::*", "//text()/@*", "//text()/namespace::*", "//comment()/..", "//processing-instruction()/../..",
        "/self::node()/..", "(/)/..", "(//@*)[1]/..", "//@*[..]", "//*[../..]", "/*/../..", "//namespace::*[1]", "//namespace::*/self::node()", "//namespace::*/descendant-or-self::node()",
    ] {
        v.push((e.to_string(), "select-nothing-step", false));
    }
    // every kind of node as the context node of every kind of expression (absolute paths, axes, functions reading the context)
    for ctx in ["//namespace::*", "//@*", "//text()", "//comment()", "//processing-instruction()", "/", "//*", "//*/..", "(//namespace::*)[1]", "(//@*)[last()]"] {
        for inner in [
            "/", "/r", "/*", "//a", "//@*", "/..", "//namespace::*", "/descendant::node()[last()]", "(/)[1]", "(//a)[1]", "/ | .", ". | /", "..", "../..", "ancestor::node()", "ancestor-or-self::node()",
            "following::node()[1]", "preceding::node()[1]", "following-sibling::node()", "preceding-sibling::node()", "descendant-or-self::node()", "self::node()/..", "namespace::*", "@*", "*", "node()",
            "count(/)", "string(/)", "name(/)", "name(/*)", "count(//node())", "lang('en')", "position() = last()", "string(.)", "name()", "local-name()", "namespace-uri()", "string-length()", "normalize-space()",
            "number()", "- .", ". + 1", ". = /", ". = //a", ". != .", ". < 1", "id('x')", "id(.)", "$v", "sum(.)", "sum(/)", "count(. | /)", "count(../namespace::*)", "boolean(/)", "not(/)", "/r[1]", "//*[/]", "//*[.]",
        ] {
            v.push((format!("{}[{}]", ctx, inner), "context-kind", false));
            v.push((format!("count({}[{}])", ctx, inner), "context-kind", false));
            if !inner.contains('=') && !inner.contains('<') && !inner.contains('+') && !inner.starts_with('-') && !inner.contains("(/)") && !inner.contains('|') && !inner.starts_with('$') && !inner.contains("(.)") && !inner.contains("()")
                || inner.ends_with("node()") || inner.ends_with("node()[1]") || inner.ends_with("node()[last()]")
            {
                if !inner.starts_with('/') && !inner.starts_with('(') && !inner.contains("count(") && !inner.contains("string(") && !inner.contains("name(") && !inner.contains("lang(") && !inner.contains("sum(") && !inner.contains("id(")
                    && !inner.contains("boolean(") && !inner.contains("not(")
                {
                    v.push((format!("{}/{}", ctx, inner), "context-kind", false));
                }
            }
        }
    }
    // every core function at every arity 0..=4 with every argument type
    let args = ["/r/a", "//@*", "1", "0 div 0", "1 div 0", "-1", "99999999999", "'s'", "''", "true()", "//namespace::*", "/", "//text()", "-1 div 0", "1.5", "//none"];
    let funcs = [
        "last", "position", "count", "id", "local-name", "namespace-uri", "name", "string", "concat", "starts-with", "contains", "substring-before", "substring-after", "substring", "string-length",
        "normalize-space", "translate", "boolean", "not", "true", "false", "lang", "number", "sum", "floor", "ceiling", "round", "unknown-function", "p:f", "q:f", "text", "node",
    ];
    for f in funcs {
        v.push((format!("{}()", f), "function-arity-type", false));
        for a in args {
            v.push((format!("{}({})", f, a), "function-arity-type", false));
            v.push((format!("//*[{}({})]", f, a), "function-arity-type", false));
            for b in ["1", "'s'", "/r/a", "0 div 0", "-1"] {
                v.push((format!("{}({}, {})", f, a, b), "function-arity-type", false));
                v.push((format!("{}({}, {}, {})", f, b, a, b), "function-arity-type", false));
                v.push((format!("{}({}, {}, {})", f, a, b, a), "function-arity-type", false));
            }
            v.push((format!("{}({}, 1, 2, 3)", f, a), "function-arity-type", false));
        }
    }
    // lang() with arguments longer than, or not aligned with, the xml:lang value
    for a in ["'en-US'", "'english'", "'en-'", "'e'", "''", "'ja'", "'日本語'", "'日'", "'é'", "'EN-us-x-y'", "1", "//a", "true()"] {
        v.push((format!("//*[lang({})]", a), "function-arity-type", false));
        v.push((format!("//@*[lang({})]", a), "function-arity-type", false));
        v.push((format!("//text()[lang({})]", a), "function-arity-type", false));
        v.push((format!("lang({})", a), "function-arity-type", false));
    }
    // unbound prefixes, operators on node-sets and mixed types
    for e in [
        "//q:a", "//q:*", "//@q:x", "q:a", "//*[q:a]", "//*[self::q:a]", "/r/a + /r/b", "/r/a * 'x'", "-/r/a", "/r/a | 1", "1 | /r/a", "'a' | 'b'", "(1)[1]", "('a')[1]", "(1)/a", "1/a",
        "true()[1]", "(//a)[0]", "(//a)[-1]", "(//a)[0 div 0]", "(//a)[1 div 0]", "//a[99999999999999999999]", "//a[1e3]", "//a[.5]", "//a[position() = last() div 0]", "//a['']", "//a[()]", "//a[]",
        "//a[1][2][3][4][5]", "//*[//*[//*[//*]]]", "/r/a/b/c/d/e/f/g", "////", "/r//", "//", "/ /", "a b", "1 2", "'unterminated", "\"x", "a::b", "foo::a", "child::", "@", "@@a", "a:", ":a", "a:b:c", "$", "$1",
        "1.2.3", "..a", "...", "a..b", "//..", "..//..", "./.", "*", "**", "* * *", "*|*", "@*", "@*/@*", "a[", "a]", "a[1", "(a", "a)", "((a)", "(a))", "f(", "f(a", "f(a,", "f(,a)", "f(a,)", ",", "|", "||",
        "a|", "|a", "=", "a=", "=a", "a = = b", "a != b = c", "a < < b", "< a", "!", "!a", "a ! b", "a and", "and a", "or", "and", "div", "mod", "a div", "div a", "- ", "-", "--", "---1", "+1", "a + + b",
        "1e", "1e+", "0x1", "NaN", "Infinity", "-Infinity", "processing-instruction(a)", "processing-instruction(1)", "processing-instruction('a', 'b')", "processing-instruction('a'", "text(1)", "node('a')",
        // keywords and names in other letter cases are names, never operators or node types
        "4 DIV 2", "4 Div 2", "4DIV2", "7 MOD 2", "7 Mod 2", "1 AND 1", "1 And 0", "1 OR 0", "0 Or 0", "//*[a MOD 2 = 0]", "//*[1 DIV 1]", "CHILD::a", "Child::*", "Text()", "NODE()", "TRUE()", "NOT(1)", "Count(//a)",
        "//a[POSITION() = 1]", "4 div 2 DIV 2", "- 4 MOD 3", "(4) DIV (2)", "/r DIV /r", "/r/div DIV 2",
        "comment(a)", "text ()", "text( )", "node ( )", "\u{0}", "\u{feff}a", "a\u{a0}b", "日本", "//日本", "'日本'", "é", "/é", "\u{1F600}",
    ] {
        v.push((e.to_string(), "ill-formed-or-ill-typed", false));
    }
    let mut seen = std::collections::HashSet::new();
    v.retain(|x| seen.insert(x.0.clone()));
    v
}

impl Space for Listed {
    fn len(&self) -> u64 {
        (self.cases.len() as u64 + 63) / 64
    }
    fn describe(&self, idx: u64) -> String {
        let c = &self.cases[(idx as usize * 64).min(self.cases.len() - 1)];
        format!("{} ({})", c.0, c.1)
    }
    fn run(&self, idx: u64, sink: &mut Sink) {
        with_fixtures(&self.docs, |fxs| {
            let lo = idx as usize * 64;
            let hi = (lo + 64).min(self.cases.len());
            for (e, how, must) in &self.cases[lo..hi] {
                sink.count("states", 1);
                if lo == 0 {
                    sink.sample(|| e.clone());
                }
                judge(e, fxs, how, *must, sink);
            }
        })
    }
}

// ---- stage families: hostile shapes with growing size

pub struct Family {
    pub name: &'static str,
    pub sizes: Vec<usize>,
    pub make: fn(usize) -> String,
}

fn steps(from: usize, to: usize, step: usize) -> Vec<usize> {
    (from..=to).step_by(step).collect()
}

fn doubling(from: u32, to: u32) -> Vec<usize> {
    (from..=to).map(|k| 1usize << k).collect()
}

fn families() -> Vec<Family> {
    vec![
        Family { name: "nested-parentheses", sizes: doubling(1, 13), make: |n| format!("{}1{}", "(".repeat(n), ")".repeat(n)) },
        Family { name: "nested-parentheses-path", sizes: doubling(1, 13), make: |n| format!("{}//a{}", "(".repeat(n), ")".repeat(n)) },
        Family { name: "nested-parentheses-unclosed", sizes: doubling(1, 13), make: |n| format!("{}1", "(".repeat(n)) },
        Family { name: "nested-predicates", sizes: doubling(1, 12), make: |n| format!("//a{}1{}", "[a".repeat(n), "]".repeat(n)) },
        Family { name: "nested-predicates-star", sizes: doubling(1, 12), make: |n| format!("{}{}", "//*[".repeat(n), "]".repeat(n)) },
        Family { name: "nested-function-calls", sizes: doubling(1, 12), make: |n| format!("{}'x'{}", "string(".repeat(n), ")".repeat(n)) },
        Family { name: "nested-not", sizes: doubling(1, 12), make: |n| format!("{}1{}", "not(".repeat(n), ")".repeat(n)) },
        Family { name: "nested-concat", sizes: doubling(1, 11), make: |n| format!("{}'x'{}", "concat('a',".repeat(n), ")".repeat(n)) },
        Family { name: "long-union", sizes: doubling(2, 14), make: |n| vec!["//a"; n].join("|") },
        Family { name: "long-and-chain", sizes: doubling(2, 14), make: |n| vec!["1"; n].join(" and ") },
        Family { name: "long-or-chain", sizes: doubling(2, 14), make: |n| vec!["0"; n].join(" or ") },
        Family { name: "long-sum", sizes: doubling(2, 14), make: |n| vec!["1"; n].join("+") },
        Family { name: "long-comparison-chain", sizes: doubling(2, 13), make: |n| vec!["1"; n].join(" = ") },
        Family { name: "long-path", sizes: doubling(2, 14), make: |n| format!("/r{}", "/a".repeat(n)) },
        Family { name: "long-descendant-path", sizes: doubling(1, 7), make: |n| format!("/r{}", "//*".repeat(n)) },
        Family { name: "long-parent-path", sizes: doubling(2, 14), make: |n| format!("//b{}", "/..".repeat(n)) },
        Family { name: "many-predicates", sizes: doubling(2, 13), make: |n| format!("//a{}", "[1]".repeat(n)) },
        Family { name: "minus-run", sizes: doubling(2, 14), make: |n| format!("{}1", "-".repeat(n)) },
        Family { name: "minus-run-spaced", sizes: doubling(2, 13), make: |n| format!("{}1", "- ".repeat(n)) },
        Family { name: "slash-run", sizes: doubling(2, 14), make: |n| "/".repeat(n) },
        Family { name: "star-run", sizes: doubling(2, 13), make: |n| vec!["*"; n].join(" ") },
        Family { name: "open-bracket-run", sizes: doubling(2, 13), make: |n| format!("a{}", "[".repeat(n)) },
        Family { name: "dot-run", sizes: doubling(2, 14), make: |n| ".".repeat(n) },
        Family { name: "long-literal", sizes: doubling(4, 18), make: |n| format!("'{}'", "x".repeat(n)) },
        Family { name: "long-number", sizes: doubling(4, 14), make: |n| "9".repeat(n) },
        Family { name: "long-fraction", sizes: doubling(4, 14), make: |n| format!("0.{}1", "0".repeat(n)) },
        Family { name: "long-name", sizes: doubling(4, 16), make: |n| format!("//{}", "a".repeat(n)) },
        Family { name: "many-arguments", sizes: doubling(2, 13), make: |n| format!("concat({})", vec!["'a'"; n].join(",")) },
        Family { name: "translate-long", sizes: doubling(4, 12), make: |n| format!("translate('{0}','{0}','{0}')", "abc".repeat(n)) },
        Family { name: "substring-huge", sizes: doubling(4, 12), make: |n| format!("substring('abc', {0}, {0})", "9".repeat(n)) },
        Family { name: "filter-chain", sizes: doubling(1, 11), make: |n| format!("{}//a{}", "(".repeat(n), ")[1]".repeat(n)) },
        // shapes whose intermediate node lists or predicate evaluations multiply with every repetition unless a step keeps each
        // node once and a predicate is evaluated once per context: sizes grow by 2, see `steps`
        Family { name: "down-up-chain", sizes: steps(2, 40, 2), make: |n| format!("/r{}", "/*/..".repeat(n)) },
        Family { name: "descendant-up-chain", sizes: steps(2, 40, 2), make: |n| "//*/..".repeat(n) },
        Family { name: "sibling-zigzag", sizes: steps(2, 40, 2), make: |n| format!("/r/*{}", "/following-sibling::*/preceding-sibling::*".repeat(n)) },
        Family { name: "ancestor-descendant-zigzag", sizes: steps(2, 40, 2), make: |n| format!("//*{}", "/ancestor::*/descendant::*".repeat(n)) },
        Family { name: "descendant-chain", sizes: steps(2, 40, 2), make: |n| "//*".repeat(n) },
        Family { name: "nested-union-left", sizes: steps(2, 40, 2), make: |n| format!("{}/r/a{}", "(".repeat(n), "|/r/a)".repeat(n)) },
        Family { name: "nested-union-right", sizes: steps(2, 40, 2), make: |n| format!("{}/r/a{}", "(/r/a|".repeat(n), ")".repeat(n)) },
        Family { name: "nested-predicates-up", sizes: steps(2, 40, 2), make: |n| format!("//a{}{}", "[../a".repeat(n), "]".repeat(n)) },
        Family { name: "nested-predicates-absolute", sizes: steps(2, 40, 2), make: |n| format!("//a{}{}", "[//a".repeat(n), "]".repeat(n)) },
        Family { name: "nested-predicates-absolute-false", sizes: steps(2, 40, 2), make: |n| format!("//a{}[0]{}", "[//a".repeat(n), "]".repeat(n)) },
        Family { name: "nested-predicates-count", sizes: steps(2, 40, 2), make: |n| format!("//a{}{}", "[count(//a".repeat(n), ") > 0]".repeat(n)) },
        Family { name: "nested-predicates-position", sizes: steps(2, 40, 2), make: |n| format!("//*{}{}", "[../*[position() = last()]".repeat(n), "]".repeat(n)) },
        Family { name: "nested-filter-predicates", sizes: steps(2, 40, 2), make: |n| format!("//a{}{}", "[(//a)".repeat(n), "]".repeat(n)) },
        Family { name: "descendant-name-chain-deep-document", sizes: steps(2, 40, 2), make: |n| "//a".repeat(n) },
        Family { name: "descendant-star-chain-deep-document", sizes: steps(2, 40, 2), make: |n| "//*".repeat(n) },
        Family { name: "descendant-attribute-chain-deep-document", sizes: steps(2, 40, 2), make: |n| format!("{}//@x", "//a".repeat(n)) },
        Family { name: "ancestor-descendant-zigzag-deep-document", sizes: steps(2, 40, 2), make: |n| format!("//a{}", "/ancestor::a/descendant::a".repeat(n)) },
        Family { name: "nested-predicates-deep-document", sizes: steps(2, 40, 2), make: |n| format!("//a{}{}", "[.//a".repeat(n), "]".repeat(n)) },
        Family { name: "nested-predicates-namespace-nodes", sizes: steps(2, 40, 2), make: |n| format!("//namespace::*{}[1 = 1]{}", "[//namespace::*".repeat(n), "]".repeat(n)) },
        Family { name: "nested-predicates-defaulted-attributes", sizes: steps(2, 40, 2), make: |n| format!("//@a{}[1 = 1]{}", "[//@a".repeat(n), "]".repeat(n)) },
        Family { name: "zigzag-namespace-nodes", sizes: steps(2, 40, 2), make: |n| format!("//*{}", "/namespace::*/self::node()/descendant-or-self::node()".repeat(n)) },
        Family { name: "alternating-filter-path", sizes: doubling(1, 10), make: |n| format!("{}/{}", "(".repeat(n), "/*)".repeat(n)) },
    ]
}

struct Families {
    docs: Vec<ADoc>,
    fams: Vec<Family>,
    soft_cap: f64,
}

impl Space for Families {
    fn len(&self) -> u64 {
        self.fams.len() as u64
    }
    fn describe(&self, idx: u64) -> String {
        let f = &self.fams[idx as usize];
        format!("family {}\nsizes {:?}\n(smallest member: {})", f.name, f.sizes, crate::engine::sink::truncate(&(f.make)(f.sizes[0]), 200))
    }
    fn run(&self, idx: u64, sink: &mut Sink) {
        let f = &self.fams[idx as usize];
        sink.count("nontrivial", 1);
        if idx == 0 {
            sink.sample(|| self.describe(idx));
        }
        with_fixtures(&self.docs, |fxs| {
            // the families over nodes without an order key of their own run on the document that has such nodes
            let fx = if f.name.ends_with("-namespace-nodes") || f.name.ends_with("-defaulted-attributes") {
                &fxs[fxs.len() - 1]
            } else if f.name.ends_with("-deep-document") {
                &fxs[fxs.len() - 2]
            } else {
                &fxs[0]
            };
            let mut prev: Option<(usize, f64)> = None;
            for &n in &f.sizes {
                let text = (f.make)(n);
                sink.count("states", 1);
                sink.count("transitions", 1);
                sink.heartbeat(idx);
                let t0 = crate::engine::CpuWatch::start();
                let o = run_query(&fx.doc, &text, &vec![], None);
                let dt = t0.seconds();
                sink.count("validated", 1);
                sink.note("family-completed", &format!("{}@{}:{}", f.name, n, classify(&o)));
                if let Outcome::Panic(m) = &o {
                    sink.finding(Finding {
                        sig: format!("panic/{}/family={}", panic_site(m), f.name),
                        what: format!("panic on hostile expression shape {} size {}", f.name, n),
                        case: format!("family {} size {}\n{}", f.name, n, crate::engine::sink::truncate(&text, 300)),
                        expected: "a value or an error".into(),
                        observed: m.clone(),
                    });
                    return;
                }
                if dt > self.soft_cap {
                    let (pn, pt) = prev.unwrap_or((0, 0.0));
                    // polynomial growth up to cubic gives at most 8x per doubling; a family growing by +2 whose cost doubles with
                    // every repetition gives 4x per member.  Only super-polynomial evidence is reported, and only if it reproduces.
                    let step_family = f.sizes.len() > 1 && f.sizes[1] - f.sizes[0] == 2 && f.sizes[0] == 2;
                    let is_blowup = |dt: f64, pt: f64| {
                        let ratio = if pt > 0.0 { dt / pt } else { f64::INFINITY };
                        (step_family && ratio >= 2.5) || ratio >= 16.0
                    };
                    let time = |size: usize| {
                        let text = (f.make)(size);
                        let t0 = crate::engine::CpuWatch::start();
                        let _ = run_query(&fx.doc, &text, &vec![], None);
                        t0.seconds()
                    };
                    match crate::engine::confirm_blowup(dt, pt, self.soft_cap, is_blowup, || time(n), || if pn > 0 { time(pn) } else { 0.0 }) {
                        Some((dt, pt)) => sink.finding(Finding {
                            sig: format!("blow-up/family={}", f.name),
                            what: format!("time blow-up on hostile expression shape {}", f.name),
                            case: format!("family {} size {}\n{}", f.name, n, crate::engine::sink::truncate(&text, 300)),
                            expected: format!("time polynomial in the expression length (soft cap {} s)", self.soft_cap),
                            observed: format!("size {} took {:.3} s; size {} took {:.6} s (x{:.1}; medians of three runs)", n, dt, pn, pt, if pt > 0.0 { dt / pt } else { f64::INFINITY }),
                        }),
                        None => {
                            sink.note("family-capped", &format!("{}@{} {:.2}s (previous {}: {:.2}s)", f.name, n, dt, pn, pt));
                            // over the cap without a verdict: the next members decide (a super-polynomial family keeps growing), up to
                            // four caps
                            if step_family && dt <= 4.0 * self.soft_cap {
                                prev = Some((n, dt));
                                continue;
                            }
                        }
                    }
                    return;
                }
                prev = Some((n, dt));
            }
        })
    }
}

impl Check for C06C {
    fn id(&self) -> &'static str {
        "C06"
    }
    fn stages(&self, _tier: Tier) -> Vec<String> {
        vec!["catalogue".into(), "well-typed".into(), "garbage".into(), "families".into()]
    }
    fn prepare(&self, stage: &str, tier: Tier, _input: &[String]) -> Box<dyn Space> {
        match stage {
            "catalogue" => Box::new(Listed { docs: three_docs(), cases: catalogue() }),
            "well-typed" => Box::new(Listed { docs: three_docs(), cases: xgen::expressions(true).iter().map(|e| (canonical(e), "well-typed", false)).collect() }),
            "garbage" => Box::new(Garbage::new(tier.pick(3, 5))),
            _ => {
                let mut docs = three_docs();
                docs.push(deep_doc());
                docs.push(keyless_nodes_doc());
                Box::new(Families { docs, fams: families(), soft_cap: tier.pick(1.0, 3.0) })
            }
        }
    }
    fn case_cap(&self, tier: Tier) -> f64 {
        tier.pick(20.0, 60.0)
    }
    fn meta(&self) -> Meta {
        Meta {
            rule: "xml_xpath::query in supervised worker processes (panic, abort, hang attributed to the exact expression) on four documents (plain; comments/PIs; DTD default + references; xml:lang values incl. non-ASCII). Stage catalogue: variable references and id() in 18 syntactic positions (error or empty node-set required where the result is a node-set), 34 steps that select nothing (parent of the root / attribute / namespace node, sibling axes from attributes, ...), every core function and several unknown ones at every arity 0..4 with every argument type (node-sets incl. attribute and namespace nodes, NaN, infinities, negative, huge, strings, booleans), ~170 ill-formed or ill-typed strings. Stage well-typed: the C05 expression families. Stage garbage: ALL token strings of length <= L over 41 tokens. Stage families: 32 hostile shapes (nested parentheses / predicates / calls, long unions, chains, paths, runs of - / * [ ., huge literals and numbers) with sizes doubling until a soft time cap; a member over the cap whose predecessor was >= 16x faster is a blow-up. Acceptable outcomes: a value or an error. Non-trivial = the query returned a value.",
            bounds_quick: "garbage length <= 3 (41 tokens = 70k strings) x 6 documents; families to 2^13..2^18, soft cap 1 s, hard cap 20 s per case",
            bounds_thorough: "garbage length <= 5 (118.8M strings) x 6 documents; soft cap 3 s, hard cap 60 s",
            assumptions: &["the worker's main thread has the default 8 MiB stack", "time verdicts are caps, not complexity measurements"],
            unbounded_total: false,
        }
    }
}
