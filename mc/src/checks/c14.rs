//! C14 — document order survives edits.

use crate::checks::c12::*;
use crate::checks::dombfs::*;
use crate::engine::{guard, panic_site, Check, Meta, Space, Tier};
use crate::model::dom::Kind;
use crate::obs;
use xml_dom::{AsNode, Element, NamedNodeMap, Node, XmlNode};

pub struct C14C;
pub static C14: C14C = C14C;

pub const QUERIES: &[&str] = &[
    "//*",
    "//node()",
    "//@*",
    "//@*|//*",
    "//*|//@*",
    "/r/*[1]",
    "/r/*[last()]",
    "/r/node()[2]",
    "//a/following-sibling::*",
    "//b/preceding-sibling::node()",
    "//b/preceding-sibling::*[1]",
    "//a/following-sibling::node()[1]",
    "//text()",
    "//comment()|//processing-instruction()",
    "//a|//b",
    "//b|//a",
    "//c/ancestor::*",
    "//c/ancestor::*[1]",
    "/descendant::*[2]",
    "//b/preceding::*",
    "//a/following::node()",
    "//*/..",
    "(//*)[2]",
    "(//b|//a)[1]",
    "//*[@x]",
    "/r//*",
    // name tests through the caller's binding p -> u: the nearest enclosing declaration after every edit
    "//p:*",
    "//p:c",
    "//*[namespace-uri() = 'u']",
    "//*[namespace::p = 'w']",
    // attributes defaulted from the DTD
    "//a/@d/..",
    "//@d",
];

fn walk_attached(doc: &xml_dom::XmlDocument) -> Vec<XmlNode> {
    let mut v = vec![];
    fn rec(n: &XmlNode, v: &mut Vec<XmlNode>) {
        v.push(n.clone());
        if let XmlNode::Element(e) = n {
            if let Some(attrs) = e.attributes() {
                let mut at: Vec<XmlNode> = attrs.iter().map(|a| a.as_node()).collect();
                at.sort_by_key(|a| a.order());
                v.extend(at);
            }
        }
        if matches!(n, XmlNode::Element(_) | XmlNode::Document(_)) {
            for c in n.child_nodes().iter() {
                rec(&c, v);
            }
        }
    }
    rec(&doc.as_node(), &mut v);
    v
}

/// Position of every attached node in the walk a re-parse of the serialization produces: adjacent
/// Text nodes are one position (they are printed back to back and parsed as one), an empty Text node
/// has no position (it prints as nothing).  The flag says whether the tree is *normalized* (no
/// adjacent or empty Text nodes): only then do positional predicates mean the same thing on the
/// edited document and on its re-parse.
fn positions(doc: &xml_dom::XmlDocument) -> (std::collections::HashMap<(Kind, usize), String>, bool) {
    let mut map = std::collections::HashMap::new();
    let mut normalized = true;
    fn is_text(n: &XmlNode) -> bool {
        matches!(n, XmlNode::Text(_) | XmlNode::ExpandedText(_))
    }
    fn rec(n: &XmlNode, path: &str, map: &mut std::collections::HashMap<(Kind, usize), String>, normalized: &mut bool) {
        map.insert((kind_of(n), n.id()), path.to_string());
        if let XmlNode::Element(e) = n {
            if let Some(attrs) = e.attributes() {
                for a in attrs.iter() {
                    let an = a.as_node();
                    map.insert((kind_of(&an), an.id()), format!("{}/@{}", path, xml_dom::Attr::name(&a)));
                }
            }
        }
        if matches!(n, XmlNode::Element(_) | XmlNode::Document(_)) {
            let mut k = 0;
            let mut in_run = false;
            for c in n.child_nodes().iter() {
                if is_text(&c) {
                    if Live::value_of(&c).is_empty() {
                        *normalized = false;
                        map.insert((kind_of(&c), c.id()), EMPTY.to_string());
                        continue;
                    }
                    if in_run {
                        *normalized = false;
                    } else {
                        in_run = true;
                        k += 1;
                    }
                    map.insert((kind_of(&c), c.id()), format!("{}/{}", path, k - 1));
                } else {
                    in_run = false;
                    rec(&c, &format!("{}/{}", path, k), map, normalized);
                    k += 1;
                }
            }
        }
    }
    rec(&doc.as_node(), "", &mut map, &mut normalized);
    (map, normalized)
}

const EMPTY: &str = "<empty-text>";

fn is_positional(q: &str) -> bool {
    q.contains('[') && !q.contains("[@")
}

/// the caller's bindings of every C14 query: p -> u
pub fn context() -> xml_xpath::eval::model::Context {
    let mut c = xml_xpath::eval::model::Context::default();
    c.add_ns(Some("p"), "u");
    c
}

pub const WARM_QUERIES: &[&str] = &["//*", "//node()", "//@*|//*", "//a|//b", "//p:*", "//p:c/..", "//*[@x]|//text()", "(//*)[2]", "//*[name() = 'c']/ancestor::*"];

pub fn query_positions(doc: &xml_dom::XmlDocument, q: &str, ctx: &mut xml_xpath::eval::model::Context) -> Result<(Vec<String>, bool), String> {
    let (pos, normalized) = positions(doc);
    match xml_xpath::query(doc.clone(), q, ctx) {
        Ok(xml_xpath::eval::model::Value::Node(ns)) => {
            let mut out: Vec<String> = vec![];
            for n in ns {
                let p = pos.get(&(kind_of(&n), n.id())).cloned().unwrap_or_else(|| format!("?{}", kind_of(&n).tag()));
                if p == EMPTY {
                    continue;
                }
                // adjacent Text pieces of one run are one node after a re-parse
                if out.last() != Some(&p) {
                    out.push(p);
                }
            }
            Ok((out, normalized))
        }
        Ok(other) => Ok((vec![format!("{:?}", other)], normalized)),
        Err(e) => Err(format!("{:?}", e)),
    }
}

/// (kind, what, expected, observed)
pub fn order_monitors(l: &Live, queries: &[&str]) -> Vec<(String, String, String, String)> {
    let mut out = vec![];
    // monitor 1: order keys along the pre-order walk of the attached tree
    let r = guard(|| {
        let w = walk_attached(&l.doc);
        let keys: Vec<(usize, String)> =
            w.iter().map(|n| (n.order(), format!("{}:{}", kind_of(n).tag(), l.handle_of(n).map(|h| h.to_string()).unwrap_or("?".into())))).collect();
        keys
    });
    match r {
        Err(m) => out.push(("panic".into(), "panic while reading order keys".into(), "order keys".into(), m)),
        Ok(keys) => {
            let dump = keys.iter().map(|(k, n)| format!("{}={}", n, k)).collect::<Vec<_>>().join(" ");
            if let Some((_, n)) = keys.iter().find(|(k, _)| *k == 0) {
                // an attribute that is not in the handle pool is one defaulted from the DTD (see dombfs::SKIP_DEFAULTED)
                let kind = if n == "attr:?" { "defaulted-attr".to_string() } else { n.split(':').next().unwrap_or("").to_string() };
                out.push((
                    format!("order-key-zero/{}", kind),
                    format!("an attached {} node has order key 0", kind),
                    "non-zero order keys for all attached nodes".into(),
                    dump.clone(),
                ));
            }
            let nz: Vec<&(usize, String)> = keys.iter().filter(|(k, _)| *k != 0).collect();
            for w in nz.windows(2) {
                if w[0].0 >= w[1].0 {
                    let kinds = format!("{}>{}", w[0].1.split(':').next().unwrap_or(""), w[1].1.split(':').next().unwrap_or(""));
                    out.push((
                        format!("order-keys-not-increasing/{}", kinds),
                        "order keys are not strictly increasing along the pre-order walk (element, its attributes, its children)".into(),
                        "strictly increasing keys".into(),
                        format!("{} ({}) is followed by {} ({})\n{}", w[0].1, w[0].0, w[1].1, w[1].0, dump),
                    ));
                    break;
                }
            }
        }
    }
    // monitor 2: every query selects the same positions as on a re-parsed copy
    if queries.is_empty() {
        return out;
    }
    let text = l.doc.to_string();
    let (p, reparsed) = obs::parse_dom(&text, l.expanded);
    let reparsed = match (p, reparsed) {
        (obs::Parsed::Complete, Some(d)) => d,
        _ => return out, // not serialisable: C15's concern
    };
    for q in queries {
        let r = guard(|| (query_positions(&l.doc, q, &mut context()), query_positions(&reparsed, q, &mut context())));
        match r {
            Err(m) => out.push((format!("query-panic/{}", panic_site(&m)), format!("query {} panicked on the edited document", q), "a value".into(), m)),
            Ok((a, b)) => {
                let normalized = a.as_ref().map(|x| x.1).unwrap_or(true);
                if !normalized && is_positional(q) {
                    // adjacent / empty Text nodes: a position on the edited tree and on its re-parse
                    // do not denote the same thing; the non-positional queries still must agree
                    continue;
                }
                let a = a.map(|x| x.0);
                let b = b.map(|x| x.0);
                if a != b {
                    let shape = match (&a, &b) {
                        (Ok(x), Ok(y)) => {
                            let mut xs = x.clone();
                            let mut ys = y.clone();
                            xs.sort();
                            ys.sort();
                            if xs == ys {
                                "order"
                            } else if xs.len() != ys.len() {
                                "cardinality"
                            } else {
                                "members"
                            }
                        }
                        _ => "error",
                    };
                    out.push((
                        format!("query-differs/{}/{}", shape, q),
                        format!("query {} on the edited document differs from the same query on a fresh parse of its serialization", q),
                        format!("{:?}  (fresh parse of {})", b, obs::q(&text)),
                        format!("{:?}", a),
                    ));
                }
            }
        }
    }
    out
}

impl Check for C14C {
    fn id(&self) -> &'static str {
        "C14"
    }
    fn stages(&self, tier: Tier) -> Vec<String> {
        stages_for(tier.pick(3, 4))
    }
    fn prepare(&self, stage: &str, tier: Tier, input: &[String]) -> Box<dyn Space> {
        let depth = tier.pick(3, 4);
        let docs = vec![
            InitialDoc { text: "<r><a><c/></a><b/></r>", foreign: None, expanded: false },
            InitialDoc { text: "<r x=\"1\"><a y=\"2\">t</a><b><c/></b></r>", foreign: None, expanded: false },
            InitialDoc { text: "<r><a/>t<!--k--><?p?><b/></r>", foreign: None, expanded: true },
            InitialDoc { text: "<r xmlns:p=\"u\"><p:a><p:c/></p:a></r>", foreign: None, expanded: true },
            // nodes without an order key of their own: an attribute and a namespace declaration defaulted from the DTD
            InitialDoc { text: "<!DOCTYPE r [<!ATTLIST a xmlns:q CDATA \"uq\" d CDATA \"v\">]><r><a/><a d=\"x\"/></r>", foreign: None, expanded: true },
        ];
        let frontier = if stage == "bfs0" { (0..docs.len()).map(|i| (i, vec![])).collect() } else { parse_frontier(input) };
        Box::new(DomBfs {
            prop: "C14",
            docs,
            alphabet: Alphabet {
                structural: true,
                creations: true,
                attributes: true,
                split: true,
                set_value: true,
                max_creations: 1,
                names: &["n"],
                values: &["w"],
            chardata: &[],
            chardata_extra: 0,
            chardata_full: true,
            attach_only: false,
                attr_names: &["xmlns:p", "xmlns"],
            },
            monitors: Monitors { tree: false, spec: false, order: true, chardata: false, serial: false },
            frontier,
            expand: stage != format!("bfs{}", depth - 1),
            order_queries: QUERIES,
            warm_queries: WARM_QUERIES,
            // the documents with namespaces and with DTD defaults are explored one level less deep
            max_depth: vec![depth, depth, depth, depth - 1, depth - 1],
        })
    }
    fn case_cap(&self, tier: Tier) -> f64 {
        tier.pick(30.0, 90.0)
    }
    fn meta(&self) -> Meta {
        Meta {
            rule: "explicit-state search over edit histories (as C12) on documents with at least two levels; after every transition two monitors run: (1) along the harness's own pre-order walk of the attached tree (element, then its attributes, then its children) XmlNode::order() is non-zero and strictly increasing; (2) differential: each of 32 node-set queries (all axes, unions in both operand orders, positional predicates on forward and reverse axes, attributes, prefixed name tests through a caller binding, the namespace axis) selects on the edited document the same positions, in the same order, as on XmlDocument::from_raw(document.to_string()) — positions are computed on a walk that merges adjacent character data, as a re-parse does; (3) the same transition is repeated on a document on which 9 queries were evaluated BEFORE the edit with one evaluation context that is kept across the edit: after the edit they must select what they select on the copy that was never queried (set_attribute / remove_attribute also with the names xmlns:p and xmlns, so that in-scope namespaces change under the queries).",
            bounds_quick: "5 initial documents (one with a namespace declaration and prefixed elements, one with an attribute and a namespace declaration defaulted from the DTD: these two to depth 2), history depth 3, 1 created node per history, 32 queries",
            bounds_thorough: "5 initial documents (the last two to depth 3), history depth 4, 1 created node per history, 32 queries",
            assumptions: &["states whose serialization does not re-parse are left to C15"],
            unbounded_total: false,
        }
    }
}
