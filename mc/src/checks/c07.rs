//! C07 — node-sets are duplicate-free, document-ordered and obey set algebra.
//! Pure invariants on what the implementation returns: no reference evaluator is involved, so the
//! expressions need not be ones the reference could evaluate.

use crate::checks::xgen;
use crate::checks::xp::*;
use crate::engine::{Check, Finding, Meta, Sink, Space, Tier};
use crate::model::adoc::ADoc;
use crate::model::xpath::*;
use xml_dom::XmlNode;

pub struct C07C;
pub static C07: C07C = C07C;

/// paths whose operands reach the same node from several context nodes, come in reverse document
/// order, or select attributes / PIs / comments / text
pub fn pool() -> Vec<Expr> {
    let mut v = xgen::path_pool();
    let c = |n: &str| step(Axis::Child, name(n));
    for ax in AXES {
        v.push(path(true, vec![dslash(), step(Axis::Child, NodeTest::Any), step(*ax, NodeTest::Node)]));
    }
    v.push(path(true, vec![dslash(), c("b"), step(Axis::Parent, NodeTest::Node), step(Axis::Child, NodeTest::Any)]));
    v.push(path(true, vec![dslash(), step(Axis::Attribute, NodeTest::Any), step(Axis::Parent, NodeTest::Node)]));
    v.push(path(true, vec![dslash(), step(Axis::Child, NodeTest::Text), step(Axis::Ancestor, NodeTest::Any)]));
    v.push(filter(path(true, vec![dslash(), c("a")]), vec![], vec![dslash(), step(Axis::Child, NodeTest::Any)]));
    v.push(filter(path(true, vec![dslash(), step(Axis::Child, NodeTest::Any)]), vec![call("last", vec![])], vec![step(Axis::PrecedingSibling, NodeTest::Node)]));
    xgen::dedup(v)
}

#[derive(Clone)]
struct Res {
    /// canonical tokens in returned order (attributes of one element / namespace nodes sorted)
    toks: Vec<String>,
    /// (kind, id) of each node in returned order
    ids: Vec<(K, usize)>,
    /// document-order key per node: (index of the node or of its owner in the reference tree, class)
    keys: Vec<(usize, u8)>,
}

fn eval_nodes(fx: &Fixture, expr: &str) -> Result<Res, String> {
    let mut ctx = new_context(&vec![]);
    let r = crate::engine::guard(|| xml_xpath::query(fx.doc.clone(), expr, &mut ctx).map_err(|e| format!("{:?}", e)));
    match r {
        Err(p) => Err(format!("PANIC {}", p)),
        Ok(Err(e)) => Err(e),
        Ok(Ok(xml_xpath::eval::model::Value::Node(ns))) => {
            let mut res = Res { toks: vec![], ids: vec![], keys: vec![] };
            for n in &ns {
                res.ids.push((k_of(n), n.id()));
                let tok = fx.map.token(n, &fx.tree);
                let key = match n {
                    XmlNode::Namespace(_) => (usize::MAX, 1),
                    XmlNode::Attribute(_) => match fx.map.map.get(&(K::Attr, n.id())) {
                        Some(i) => (fx.tree.nodes[*i].parent.unwrap_or(0), 2),
                        None => (usize::MAX, 2),
                    },
                    other => match fx.map.map.get(&(k_of(other), other.id())) {
                        Some(i) => (*i, 0),
                        None => (usize::MAX, 0),
                    },
                };
                res.keys.push(key);
                res.toks.push(tok);
            }
            res.toks = canon_seq(res.toks);
            Ok(res)
        }
        Ok(Ok(other)) => Err(format!("not a node-set: {:?}", other)),
    }
}

struct Algebra {
    docs: Vec<ADoc>,
    pool: Vec<Expr>,
    triples: usize,
}

impl Algebra {
    fn report(&self, sink: &mut Sink, kind: &str, feat: &str, case: String, exp: String, obsd: String) {
        sink.finding(Finding { sig: format!("{}/{}", kind, feat), what: format!("node-set invariant violated: {}", kind), case, expected: exp, observed: obsd });
    }
}

impl Space for Algebra {
    fn len(&self) -> u64 {
        self.docs.len() as u64
    }
    fn describe(&self, idx: u64) -> String {
        format!("document {} x {} paths (all ordered pairs, triples of the first {})", crate::model::adoc::render_canonical(&self.docs[idx as usize]), self.pool.len(), self.triples)
    }
    fn run(&self, idx: u64, sink: &mut Sink) {
        let d = &self.docs[idx as usize];
        let fx = match fixture(d) {
            Ok(f) => f,
            Err(_) => {
                sink.count("unusable-documents", 1);
                return;
            }
        };
        // namespace nodes and DTD-defaulted attributes have no identity of their own (known, see C05)
        let special = crate::checks::c05::has_defaulted_attribute(d);
        sink.count("states", 1);
        let strs: Vec<String> = self.pool.iter().map(canonical).collect();
        let single: Vec<Result<Res, String>> = strs.iter().map(|s| eval_nodes(&fx, s)).collect();
        // per-set invariants
        for (k, r) in single.iter().enumerate() {
            sink.count("transitions", 1);
            sink.count("validated", 1);
            let feat = xgen::features(&self.pool[k]);
            let r = match r {
                Ok(r) => r,
                Err(e) => {
                    if e.starts_with("PANIC") {
                        self.report(sink, "panic", &feat, format!("{} on {}", strs[k], fx.text), "a node-set".into(), e.clone());
                    }
                    continue;
                }
            };
            if !r.toks.is_empty() {
                sink.count("nontrivial", 1);
            }
            let ns_or_special = r.ids.iter().any(|i| i.0 == K::Ns) || (special && r.ids.iter().any(|i| i.0 == K::Attr));
            let marker = if ns_or_special { "shared-identity-nodes/" } else { "" };
            let mut seen = std::collections::HashSet::new();
            if let Some(dup) = r.ids.iter().find(|i| !seen.insert(**i)) {
                self.report(sink, &format!("{}duplicate-node", marker), &feat, format!("{} on {}", strs[k], fx.text), "each node at most once".into(), format!("{:?} twice in [{}]", dup, r.toks.join(", ")));
            }
            for w in r.keys.windows(2) {
                let same_group = w[0] == w[1] && w[0].1 != 0;
                if w[0] > w[1] || (w[0] == w[1] && !same_group) {
                    self.report(sink, &format!("{}not-in-document-order", marker), &feat, format!("{} on {}", strs[k], fx.text), "document order".into(), format!("[{}]", r.toks.join(", ")));
                    break;
                }
            }
        }
        // pairs: commutativity, idempotence, counts, positional filters on a parenthesised union
        let set_of = |r: &Res| -> std::collections::BTreeSet<String> { r.toks.iter().cloned().collect() };
        for (i, a) in single.iter().enumerate() {
            let ra = match a {
                Ok(r) => r,
                Err(_) => continue,
            };
            for (j, b) in single.iter().enumerate() {
                let rb = match b {
                    Ok(r) => r,
                    Err(_) => continue,
                };
                sink.count("transitions", 1);
                let ab = format!("{} | {}", strs[i], strs[j]);
                let feat = format!("{}|{}", xgen::features(&self.pool[i]), xgen::features(&self.pool[j]));
                let case = format!("{} on {}", ab, fx.text);
                let marker = if ra.ids.iter().chain(rb.ids.iter()).any(|x| x.0 == K::Ns) || (special && ra.ids.iter().chain(rb.ids.iter()).any(|x| x.0 == K::Attr)) {
                    "shared-identity-nodes/"
                } else {
                    ""
                };
                let rab = match eval_nodes(&fx, &ab) {
                    Ok(r) => r,
                    Err(e) => {
                        self.report(sink, &format!("{}union-fails", marker), &feat, case, "a node-set".into(), e);
                        continue;
                    }
                };
                sink.count("validated", 1);
                let want: Vec<String> = {
                    let mut u = set_of(ra);
                    u.extend(set_of(rb));
                    u.into_iter().collect()
                };
                let mut got_sorted = rab.toks.clone();
                got_sorted.sort();
                got_sorted.dedup();
                if got_sorted != want || rab.toks.len() != want.len() {
                    self.report(sink, &format!("{}union-is-not-the-set-union", marker), &feat, case.clone(), format!("{} nodes: {:?}", want.len(), want), format!("{} nodes: {:?}", rab.toks.len(), rab.toks));
                }
                if rab.toks.len() > ra.toks.len() + rb.toks.len() {
                    self.report(sink, &format!("{}count-exceeds-sum", marker), &feat, case.clone(), format!("<= {}", ra.toks.len() + rb.toks.len()), rab.toks.len().to_string());
                }
                for w in rab.keys.windows(2) {
                    let same_group = w[0] == w[1] && w[0].1 != 0;
                    if w[0] > w[1] || (w[0] == w[1] && !same_group) {
                        self.report(sink, &format!("{}union-not-in-document-order", marker), &feat, case.clone(), "document order".into(), format!("[{}]", rab.toks.join(", ")));
                        break;
                    }
                }
                if i == j && rab.toks != ra.toks {
                    self.report(sink, &format!("{}union-not-idempotent", marker), &feat, case.clone(), format!("{:?}", ra.toks), format!("{:?}", rab.toks));
                }
                if i < j {
                    let ba = format!("{} | {}", strs[j], strs[i]);
                    if let Ok(rba) = eval_nodes(&fx, &ba) {
                        if rba.toks != rab.toks {
                            self.report(sink, &format!("{}union-not-commutative", marker), &feat, case.clone(), format!("{:?}", rab.toks), format!("{} gives {:?}", ba, rba.toks));
                        }
                    }
                }
                // count() agrees with the node-set
                let cnt = run_query(&fx.doc, &format!("count({})", ab), &vec![], None);
                if cnt != Outcome::Val(num_dump(rab.toks.len() as f64)) {
                    self.report(sink, &format!("{}count-disagrees", marker), &feat, case.clone(), num_dump(rab.toks.len() as f64), format!("{:?}", cnt));
                }
                // the XPath 1.0 idioms for intersection and difference: A[count(. | B) = count(B)] is A ∩ B,
                // A[count(. | B) != count(B)] is A \ B (a union and a count evaluated with every node of A as context)
                if marker.is_empty() && (j <= i + 6 || i <= 2) {
                    for (op, want_in) in [("=", true), ("!=", false)] {
                        let q = format!("({})[count(. | {}) {} count({})]", strs[i], strs[j], op, strs[j]);
                        sink.count("transitions", 1);
                        match eval_nodes(&fx, &q) {
                            Ok(r) => {
                                sink.count("validated", 1);
                                let sb = set_of(rb);
                                let want: Vec<String> = ra.toks.iter().filter(|t| sb.contains(*t) == want_in).cloned().collect();
                                if r.toks != want {
                                    self.report(sink, if want_in { "intersection-idiom-wrong" } else { "difference-idiom-wrong" }, &feat, format!("{} on {}", q, fx.text), format!("{:?}", want), format!("{:?}", r.toks));
                                }
                            }
                            Err(e) => self.report(sink, "intersection-idiom-fails", &feat, format!("{} on {}", q, fx.text), "a node-set".into(), e),
                        }
                    }
                }
                // positional filters count in document order
                if j <= i + 3 {
                    for (n, pick) in [("1", rab.toks.first()), ("2", rab.toks.get(1)), ("last()", rab.toks.last())] {
                        let q = format!("({})[{}]", ab, n);
                        match eval_nodes(&fx, &q) {
                            Ok(r) => {
                                let want: Vec<String> = pick.into_iter().cloned().collect();
                                // within a group of attributes of one element the order is open
                                let ok = r.toks == want || (r.toks.len() == want.len() && r.toks.len() == 1 && r.toks[0].starts_with('@') && want[0].starts_with('@') && r.toks[0].rsplit('#').next() == want[0].rsplit('#').next()) || (r.toks.len() == 1 && want.len() == 1 && r.toks[0].starts_with("ns(") && want[0].starts_with("ns("));
                                if !ok {
                                    self.report(sink, &format!("{}positional-filter-not-in-document-order", marker), &format!("{}/[{}]", feat, n), format!("{} on {}", q, fx.text), format!("{:?}", want), format!("{:?}", r.toks));
                                }
                            }
                            Err(e) => self.report(sink, &format!("{}filter-fails", marker), &feat, format!("{} on {}", q, fx.text), "a node-set".into(), e),
                        }
                    }
                }
            }
        }
        // triples: associativity
        let t = self.triples.min(self.pool.len());
        for i in 0..t {
            for j in 0..t {
                for k in 0..t {
                    if single[i].is_err() || single[j].is_err() || single[k].is_err() {
                        continue;
                    }
                    sink.count("transitions", 1);
                    let l = format!("({} | {}) | {}", strs[i], strs[j], strs[k]);
                    let r = format!("{} | ({} | {})", strs[i], strs[j], strs[k]);
                    match (eval_nodes(&fx, &l), eval_nodes(&fx, &r)) {
                        (Ok(a), Ok(b)) => {
                            sink.count("validated", 1);
                            if a.toks != b.toks {
                                self.report(sink, "union-not-associative", &format!("{}|{}|{}", xgen::features(&self.pool[i]), xgen::features(&self.pool[j]), xgen::features(&self.pool[k])), format!("{} on {}", l, fx.text), format!("{:?}", a.toks), format!("{} gives {:?}", r, b.toks));
                            }
                        }
                        (a, b) => {
                            if a.is_err() != b.is_err() {
                                self.report(sink, "union-not-associative", "error-on-one-side", format!("{} on {}", l, fx.text), format!("{:?}", a.map(|x| x.toks)), format!("{:?}", b.map(|x| x.toks)));
                            }
                        }
                    }
                }
            }
        }
    }
}

impl Check for C07C {
    fn id(&self) -> &'static str {
        "C07"
    }
    fn stages(&self, _tier: Tier) -> Vec<String> {
        vec!["algebra".into()]
    }
    fn prepare(&self, _stage: &str, tier: Tier, _input: &[String]) -> Box<dyn Space> {
        let quick = tier == Tier::Quick;
        let docs = if quick { let mut v = xgen::rich_docs(); v.extend(xgen::skeleton_docs(3, true)); v } else { xgen::docs(false) };
        Box::new(Algebra { docs, pool: pool(), triples: tier.pick(8, 20) })
    }
    fn case_cap(&self, tier: Tier) -> f64 {
        tier.pick(60.0, 240.0)
    }
    fn meta(&self) -> Meta {
        Meta {
            rule: "for every document: every path of a pool of ~40 (all 13 axes from every element, paths reaching one node from several context nodes, operands in reverse document order, attribute / text / comment / PI selections, filter steps) is evaluated by the implementation and checked for: no node twice (identity = node kind + XmlNode::id()), document order (position in the harness's own reference walk; order among one element's attributes open). Every ORDERED PAIR (A, B): A|B equals the set union of A and B, is in document order, A|B = B|A, A|A = A, count(A|B) <= count(A)+count(B) and equals the size of the node-set, (A|B)[1], [2], [last()] pick the first, second and last node in document order; for pairs near the diagonal A[count(.|B) = count(B)] is the intersection and A[count(.|B) != count(B)] the difference of the two sets, in A's order. Every TRIPLE of the first t paths: (A|B)|C = A|(B|C). No reference evaluator is involved. Non-trivial = a non-empty node-set.",
            bounds_quick: "10 hand-picked documents + skeletons <= 3 elements with one decoration; all ordered pairs of the pool; triples of the first 8 paths",
            bounds_thorough: "10 + 419 documents (skeletons <= 5 elements, bare and with one decoration); all ordered pairs; triples of the first 20 paths",
            assumptions: &["node identity is (kind, XmlNode::id()); namespace nodes and DTD-defaulted attributes share identities (known finding under C05) and are reported under their own signature"],
            unbounded_total: false,
        }
    }
}
