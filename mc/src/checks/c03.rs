//! C03 — parsing, infoset construction and printing are total: a value or an error, never a
//! panic, abort, hang or blow-up.

use crate::checks::c02::Edit1;
use crate::engine::{guard, panic_site, Check, Finding, Meta, Sink, Space, Tier};
use crate::model::edits::*;
use crate::obs::{self, View};
use xml_dom::PrettyPrint;

pub struct C03C;
pub static C03: C03C = C03C;

impl Check for C03C {
    fn id(&self) -> &'static str {
        "C03"
    }
    fn stages(&self, _tier: Tier) -> Vec<String> {
        vec!["unsupported".into(), "garbage".into(), "edits".into(), "families".into()]
    }
    fn prepare(&self, stage: &str, tier: Tier, _input: &[String]) -> Box<dyn Space> {
        match stage {
            "unsupported" => Box::new(Listed { cases: unsupported() }),
            "garbage" => Box::new(Garbage::new(tier.pick(5, 7))),
            "edits" => Box::new(Edits { inner: Edit1::new(seeds(), SIGMA) }),
            _ => Box::new(Families { fams: families(), soft_cap: tier.pick(1.0, 3.0), tier }),
        }
    }
    fn case_cap(&self, tier: Tier) -> f64 {
        tier.pick(20.0, 60.0)
    }
    fn meta(&self) -> Meta {
        Meta {
            rule: "stage garbage: every token string of length <= L over an 18-token alphabet of markup characters and keywords; stage edits: the token-edit-distance-1 neighbourhood of ~60 seed documents; stage unsupported: every placement of parameter-entity declarations/references and other unsupported constructs; stage families: hostile shape families (deep nesting, wide siblings, many attributes, long data, entity chains / fan-out / cycles, nested content-model groups in five shapes, long failing alternatives) with sizes growing until a soft time cap. Each input runs from_raw (raw and merged-text), a full walk of every infoset and DOM accessor, Display and pretty() in a supervised worker; outcome classes Ok/Err are the only acceptable ones. Non-trivial = the input reached at least the infoset stage (parse returned Ok) or belongs to a hostile family.",
            bounds_quick: "garbage length <= 5 (18 tokens: 2M strings); edit distance 1; nesting to 2^16, widths to 2^15, content-model depth <= 40; soft cap 1 s per family member, hard cap 20 s per case",
            bounds_thorough: "garbage length <= 7 (18 tokens: 648M strings); edit distance 1; same families with soft cap 3 s, hard cap 60 s",
            assumptions: &[
                "a family member exceeding the soft cap while the previous member finished 100x faster is reported as a blow-up with both timings (a cap, not a measured complexity class)",
                "the worker's main thread has the default 8 MiB stack, as a caller has",
            ],
            unbounded_total: false,
        }
    }
}

/// Run the whole pipeline on one input; returns the outcome class, or the panic message.
pub fn pipeline(text: &str) -> Result<&'static str, (String, String)> {
    let mut stage = "parse";
    let r = guard(|| {
        let mut class = "Err";
        for expanded in [false, true] {
            let (_p, doc) = obs::parse_dom(text, expanded);
            if let Some(doc) = doc {
                class = "Ok";
                let view = if expanded { View::Merged } else { View::Raw };
                let _ = obs::dom_dump(&doc, view);
                let _ = obs::dom_preorder(&doc, true);
                let s = doc.to_string();
                let _ = s.len();
                let mut buf: Vec<u8> = vec![];
                let _ = doc.pretty(&mut buf);
            }
        }
        let (_p, idoc) = obs::parse_info(text);
        if let Some(d) = idoc {
            let _ = obs::info_dump(&d, View::Raw);
            let _ = obs::info_dump(&d, View::Merged);
        }
        class
    });
    let _ = &mut stage;
    match r {
        Ok(c) => Ok(c),
        Err(m) => Err((panic_site(&m), m)),
    }
}

fn run_text(text: &str, how: &str, sink: &mut Sink) {
    sink.count("states", 1);
    sink.count("transitions", 1);
    match pipeline(text) {
        Ok(c) => {
            sink.count("validated", 1);
            sink.note("outcomes", c);
            if c == "Ok" {
                sink.count("nontrivial", 1);
            }
        }
        Err((site, m)) => {
            sink.note("outcomes", "PANIC");
            sink.finding(Finding {
                sig: format!("panic/{}", site),
                what: "panic while parsing / building / walking / printing".into(),
                case: format!("{}\n({})", text, how),
                expected: "a value or an error".into(),
                observed: m,
            });
        }
    }
}

// ---------------------------------------------------------------------------------------------

const GTOK: &[&str] =
    &["<", ">", "/", "a", "=", "\"", "&", ";", "#", "!", "?", "-", "[", " ", "<!DOCTYPE a [", "<!ENTITY", "%", "]]>"];

struct Garbage {
    maxlen: u32,
    n: u64,
}

impl Garbage {
    fn new(maxlen: u32) -> Garbage {
        let a = GTOK.len() as u64;
        let mut n = 0;
        let mut p = 1;
        for _ in 0..maxlen {
            p *= a;
            n += p;
        }
        Garbage { maxlen, n }
    }
    fn text(&self, mut idx: u64) -> String {
        let a = GTOK.len() as u64;
        let mut len = 1;
        let mut p = a;
        while idx >= p {
            idx -= p;
            p *= a;
            len += 1;
        }
        let mut v = vec![];
        for _ in 0..len {
            v.push(GTOK[(idx % a) as usize]);
            idx /= a;
        }
        v.reverse();
        v.concat()
    }
}

impl Space for Garbage {
    fn len(&self) -> u64 {
        self.n
    }
    fn describe(&self, idx: u64) -> String {
        format!("{}\n(garbage token string, maxlen {})", self.text(idx), self.maxlen)
    }
    fn run(&self, idx: u64, sink: &mut Sink) {
        let t = self.text(idx);
        if idx == 4242 {
            sink.sample(|| t.clone());
        }
        run_text(&t, "garbage", sink);
    }
}

struct Edits {
    inner: Edit1,
}

impl Space for Edits {
    fn len(&self) -> u64 {
        self.inner.total()
    }
    fn describe(&self, idx: u64) -> String {
        let (t, how) = self.inner.case(idx);
        format!("{}\n({})", t, how)
    }
    fn run(&self, idx: u64, sink: &mut Sink) {
        let (t, how) = self.inner.case(idx);
        run_text(&t, &how, sink);
    }
}

struct Listed {
    cases: Vec<(String, &'static str)>,
}

fn unsupported() -> Vec<(String, &'static str)> {
    let mut v: Vec<(String, &'static str)> = vec![];
    // character references whose number does not fit 32 / 64 bits, in every place a reference may stand
    for n in ["4294967296", "x100000000", "18446744073709551616", "x10000000000000000", "99999999999999999999999999999999", "x1FFFFFFFFFFFFFFFFFFFFFFFFFFFFF", "0000000000000000000000000000000065", "x-41", "-65", "+65", "x+41"] {
        for t in ["<r>&#{};</r>", "<r a='&#{};'/>", "<!DOCTYPE r [<!ENTITY e '&#{};'>]><r>&e;</r>", "<!DOCTYPE r [<!ENTITY e '&#{};'>]><r/>", "<!DOCTYPE r [<!ATTLIST r a CDATA '&#{};'>]><r/>"] {
            v.push((t.replace("{}", n), "character reference beyond 32 bits or with a sign"));
        }
    }
    // recursion reached after an entity that was already verified, in content and in an attribute value
    for (decls, top) in [
        ("<!ENTITY b 'x'><!ENTITY a '&b;&b;&a;'>", "a"),
        ("<!ENTITY b 'x'><!ENTITY a '&b;&c;'><!ENTITY c '&b;&b;&a;'>", "a"),
        ("<!ENTITY b 'x'><!ENTITY c '&b;'><!ENTITY a '&c;&b;&c;&a;'>", "a"),
        ("<!ENTITY a '&b;&b;'><!ENTITY b '&c;&c;'><!ENTITY c '&a;'>", "a"),
    ] {
        v.push((format!("<!DOCTYPE r [{}]><r>&{};</r>", decls, top), "recursion behind a verified entity (content)"));
        v.push((format!("<!DOCTYPE r [{}]><r x='&{};'/>", decls, top), "recursion behind a verified entity (attribute)"));
        v.push((format!("<!DOCTYPE r [{}]><r/>", decls), "recursion behind a verified entity (unreferenced)"));
    }
    let mut add = |s: &str, why: &'static str| v.push((s.to_string(), why));
    add("<!DOCTYPE r [<!ENTITY % p \"x\">]><r/>", "PE declaration");
    add("<!DOCTYPE r [<!ENTITY % p SYSTEM 'p.ent'>]><r/>", "external PE declaration");
    add("<!DOCTYPE r [<!ENTITY % p \"<!ENTITY e 'v'>\">%p;]><r>&e;</r>", "PE declared and referenced in the subset");
    add("<!DOCTYPE r [%p;]><r/>", "undeclared PE reference in the subset");
    add("<!DOCTYPE r [<!ENTITY % p 'x'><!ENTITY e '%p;'>]><r>&e;</r>", "PE reference inside an entity value");
    add("<!DOCTYPE r [<!ENTITY e 'a%p;b'>]><r>&e;</r>", "undeclared PE reference inside an entity value, entity used in content");
    add("<!DOCTYPE r [<!ENTITY e 'a%p;b'>]><r x='&e;'/>", "PE reference inside an entity value, entity used in attribute");
    add("<!DOCTYPE r [<!ENTITY e 'a%p;b'><!ATTLIST r x CDATA '&e;'>]><r/>", "PE-bearing entity in an attribute default");
    add("<!DOCTYPE r [<!ENTITY % p 'CDATA'><!ATTLIST r x %p; #IMPLIED>]><r/>", "PE reference inside an ATTLIST");
    add("<!DOCTYPE r [<!ENTITY % p '(a)'><!ELEMENT r %p;>]><r/>", "PE reference inside an ELEMENT declaration");
    add("<!DOCTYPE r SYSTEM 'r.dtd'><r>&e;</r>", "external subset with undeclared entity");
    add("<!DOCTYPE r SYSTEM 'r.dtd' [<!ENTITY e 'v'>]><r>&e;</r>", "external + internal subset");
    add("<!DOCTYPE r PUBLIC '-//X//EN' 'r.dtd'><r/>", "public external subset");
    add("<!DOCTYPE r [<!ENTITY x SYSTEM 'x.xml'>]><r>&x;</r>", "external parsed entity referenced in content");
    add("<!DOCTYPE r [<!ENTITY x PUBLIC 'p' 'x.xml'>]><r>&x;&x;</r>", "public external parsed entity referenced twice");
    add("<!DOCTYPE r [<![INCLUDE[<!ENTITY e 'v'>]]>]><r/>", "conditional section in the internal subset");
    add("<?xml version='1.0' encoding='UTF-16'?><r/>", "declared encoding differs from the actual one");
    add("<?xml version='1.1'?><r>\u{85}</r>", "XML 1.1 document");
    add("\u{feff}<r/>", "byte order mark");
    v
}

impl Space for Listed {
    fn len(&self) -> u64 {
        self.cases.len() as u64
    }
    fn describe(&self, idx: u64) -> String {
        let (t, why) = &self.cases[idx as usize];
        format!("{}\n(unsupported construct: {})", t, why)
    }
    fn run(&self, idx: u64, sink: &mut Sink) {
        let (t, why) = &self.cases[idx as usize];
        sink.count("nontrivial", 1);
        run_text(t, why, sink);
    }
}

// ---------------------------------------------------------------------------------------------

pub struct Family {
    pub name: &'static str,
    pub sizes: Vec<usize>,
    pub make: fn(usize) -> String,
}

fn doubling(from: u32, to: u32) -> Vec<usize> {
    (from..=to).map(|e| 1usize << e).collect()
}

fn steps(from: usize, to: usize, step: usize) -> Vec<usize> {
    (from..=to).step_by(step).collect()
}

pub fn families() -> Vec<Family> {
    vec![
        Family { name: "nested-elements", sizes: doubling(4, 16), make: |n| format!("{}{}", "<a>".repeat(n), "</a>".repeat(n)) },
        Family {
            name: "nested-elements-with-attributes-and-text",
            sizes: doubling(4, 16),
            make: |n| format!("{}{}", "<a x='1'>t".repeat(n), "u</a>".repeat(n)),
        },
        Family { name: "unclosed-nested-elements", sizes: doubling(4, 16), make: |n| "<a>".repeat(n) },
        Family { name: "siblings", sizes: doubling(4, 15), make: |n| format!("<r>{}</r>", "<a/>".repeat(n)) },
        Family { name: "mixed-siblings", sizes: doubling(4, 14), make: |n| format!("<r>{}</r>", "t<a/><!--c--><?p?>&amp;<![CDATA[x]]>".repeat(n)) },
        Family {
            name: "attributes",
            sizes: doubling(4, 12),
            make: |n| {
                let mut s = String::from("<r");
                for i in 0..n {
                    s.push_str(&format!(" a{}='{}'", i, i));
                }
                s.push_str("/>");
                s
            },
        },
        Family {
            name: "attributes-then-unclosed",
            sizes: doubling(4, 12),
            make: |n| {
                let mut s = String::from("<r");
                for i in 0..n {
                    s.push_str(&format!(" a{}='{}'", i, i));
                }
                s
            },
        },
        Family { name: "long-text", sizes: doubling(8, 20), make: |n| format!("<r>{}</r>", "t".repeat(n)) },
        Family { name: "long-text-with-brackets", sizes: doubling(8, 18), make: |n| format!("<r>{}</r>", "]]".repeat(n)) },
        Family { name: "long-comment", sizes: doubling(8, 20), make: |n| format!("<r><!--{}--></r>", "c".repeat(n)) },
        Family { name: "long-comment-dashes", sizes: doubling(8, 18), make: |n| format!("<r><!--{}--></r>", "- ".repeat(n)) },
        Family { name: "long-cdata", sizes: doubling(8, 20), make: |n| format!("<r><![CDATA[{}]]></r>", "]".repeat(n)) },
        Family { name: "long-pi", sizes: doubling(8, 20), make: |n| format!("<r><?p {}?></r>", "?".repeat(n)) },
        Family { name: "long-attribute-value", sizes: doubling(8, 20), make: |n| format!("<r a='{}'/>", " x".repeat(n)) },
        Family { name: "long-name", sizes: doubling(8, 18), make: |n| format!("<{0}/>", "n".repeat(n)) },
        Family { name: "many-references", sizes: doubling(4, 16), make: |n| format!("<r a='{0}'>{0}</r>", "&amp;&#65;".repeat(n)) },
        Family { name: "many-prolog-items", sizes: doubling(4, 14), make: |n| format!("{}<r/>{}", "<!--c--><?p?> ".repeat(n), "<?q?>\n".repeat(n)) },
        Family {
            name: "entity-chain-in-content",
            sizes: doubling(2, 12),
            make: |n| {
                let mut s = String::from("<!DOCTYPE r [<!ENTITY e0 'v'>");
                for i in 1..=n {
                    s.push_str(&format!("<!ENTITY e{} '&e{};'>", i, i - 1));
                }
                s.push_str(&format!("]><r>&e{};</r>", n));
                s
            },
        },
        Family {
            name: "entity-chain-in-attribute",
            sizes: doubling(2, 12),
            make: |n| {
                let mut s = String::from("<!DOCTYPE r [<!ENTITY e0 'v'>");
                for i in 1..=n {
                    s.push_str(&format!("<!ENTITY e{} 'x&e{};'>", i, i - 1));
                }
                s.push_str(&format!("]><r a='&e{};'/>", n));
                s
            },
        },
        Family {
            name: "entity-fan-out",
            sizes: steps(2, 40, 2),
            make: |n| {
                // the classic doubling definition; the *denoted* text is 2^n characters, so only
                // parsing and declaration handling are exercised unless the value is read
                let mut s = String::from("<!DOCTYPE r [<!ENTITY e0 'v'>");
                for i in 1..=n {
                    s.push_str(&format!("<!ENTITY e{} '&e{};&e{};'>", i, i - 1, i - 1));
                }
                s.push_str(&format!("]><r a='1'>&e{};</r>", n.min(12)));
                s
            },
        },
        Family {
            name: "entity-dag",
            sizes: steps(2, 40, 2),
            make: |n| {
                let mut s = String::from("<!DOCTYPE r [<!ENTITY a0 ''><!ENTITY b0 ''>");
                for i in 1..=n {
                    s.push_str(&format!("<!ENTITY a{0} '&a{1};&b{1};'><!ENTITY b{0} '&b{1};&a{1};'>", i, i - 1));
                }
                s.push_str(&format!("]><r>&a{};</r>", n));
                s
            },
        },
        Family {
            name: "entity-dag-in-attribute",
            sizes: steps(2, 40, 2),
            make: |n| {
                // empty leaves: the denoted value stays empty, only the well-formedness checks walk the DAG
                let mut s = String::from("<!DOCTYPE r [<!ENTITY a0 ''><!ENTITY b0 ''>");
                for i in 1..=n {
                    s.push_str(&format!("<!ENTITY a{0} '&a{1};&b{1};'><!ENTITY b{0} '&b{1};&a{1};'>", i, i - 1));
                }
                s.push_str(&format!("]><r x='&a{0};' y='&b{0};'>&a{0};</r>", n));
                s
            },
        },
        Family {
            name: "entity-doubling-in-attribute",
            sizes: steps(2, 40, 2),
            make: |n| {
                let mut s = String::from("<!DOCTYPE r [<!ENTITY e0 ''>");
                for i in 1..=n {
                    s.push_str(&format!("<!ENTITY e{} '&e{};&e{};'>", i, i - 1, i - 1));
                }
                s.push_str(&format!("]><r a='&e{};'/>", n));
                s
            },
        },
        Family {
            name: "entity-cycle",
            sizes: vec![1, 2, 3, 4, 8],
            make: |n| {
                let mut s = String::from("<!DOCTYPE r [");
                for i in 0..n {
                    s.push_str(&format!("<!ENTITY c{} 'x&c{};'>", i, (i + 1) % n));
                }
                s.push_str("<!ATTLIST r d CDATA '&c0;'>]><r a='&c0;'>&c0;</r>");
                s
            },
        },
        Family {
            name: "entity-cycle-declared-only",
            sizes: vec![1, 2, 3, 4, 8],
            make: |n| {
                let mut s = String::from("<!DOCTYPE r [");
                for i in 0..n {
                    s.push_str(&format!("<!ENTITY c{} 'x&c{};'>", i, (i + 1) % n));
                }
                s.push_str("]><r/>");
                s
            },
        },
        Family {
            name: "content-model-right-nested-seq",
            sizes: steps(2, 40, 2),
            make: |n| format!("<!DOCTYPE r [<!ELEMENT r {}a{}>]><r/>", "(a,".repeat(n), ")".repeat(n)),
        },
        Family {
            name: "content-model-left-nested-choice",
            sizes: steps(2, 40, 2),
            make: |n| format!("<!DOCTYPE r [<!ELEMENT r {}a{}>]><r/>", "(".repeat(n), "|b)".repeat(n)),
        },
        Family {
            name: "content-model-left-nested-seq",
            sizes: steps(2, 40, 2),
            make: |n| format!("<!DOCTYPE r [<!ELEMENT r {}a{}>]><r/>", "(".repeat(n), ",b)".repeat(n)),
        },
        Family {
            name: "content-model-alternating",
            sizes: steps(2, 40, 2),
            make: |n| {
                let mut open = String::new();
                let mut close = String::new();
                for i in 0..n {
                    open.push('(');
                    close.insert_str(0, if i % 2 == 0 { "|b)*" } else { ",b)+" });
                }
                format!("<!DOCTYPE r [<!ELEMENT r {}a{}>]><r/>", open, close)
            },
        },
        Family {
            name: "content-model-wrong-closer",
            sizes: steps(2, 40, 2),
            make: |n| format!("<!DOCTYPE r [<!ELEMENT r {}a{}>]><r/>", "(".repeat(n), "|b".repeat(n)),
        },
        Family {
            name: "content-model-pcdata-lookalike",
            sizes: steps(2, 40, 2),
            make: |n| format!("<!DOCTYPE r [<!ELEMENT r {}#PCDATA{}>]><r/>", "(".repeat(n), ")".repeat(n)),
        },
        Family {
            name: "content-model-plain-nesting",
            sizes: steps(2, 40, 2),
            make: |n| format!("<!DOCTYPE r [<!ELEMENT r {}a{}>]><r/>", "(".repeat(n), ")".repeat(n)),
        },
        Family {
            name: "enumeration-wide",
            sizes: doubling(4, 14),
            make: |n| format!("<!DOCTYPE r [<!ATTLIST r a ({}v) #IMPLIED>]><r/>", "t|".repeat(n)),
        },
        Family {
            name: "many-declarations",
            sizes: doubling(4, 12),
            make: |n| {
                let mut s = String::from("<!DOCTYPE r [");
                for i in 0..n {
                    s.push_str(&format!("<!ENTITY e{0} 'v'><!ATTLIST r a{0} CDATA 'd'><!NOTATION n{0} SYSTEM 's'>", i));
                }
                s.push_str("]><r/>");
                s
            },
        },
        Family { name: "open-angle-run", sizes: doubling(4, 16), make: |n| "<".repeat(n) },
        Family { name: "ampersand-run", sizes: doubling(4, 16), make: |n| format!("<r>{}</r>", "&".repeat(n)) },
        Family { name: "doctype-bracket-run", sizes: doubling(4, 14), make: |n| format!("<!DOCTYPE r [{}", "<!ELEMENT r (".repeat(n)) },
    ]
}

struct Families {
    fams: Vec<Family>,
    soft_cap: f64,
    tier: Tier,
}

impl Space for Families {
    fn len(&self) -> u64 {
        self.fams.len() as u64
    }
    fn describe(&self, idx: u64) -> String {
        let f = &self.fams[idx as usize];
        format!(
            "family {}\nsizes {:?}\n(smallest member: {})",
            f.name,
            f.sizes,
            crate::engine::sink::truncate(&(f.make)(f.sizes[0]), 300)
        )
    }
    fn run(&self, idx: u64, sink: &mut Sink) {
        let f = &self.fams[idx as usize];
        let _ = self.tier;
        sink.count("nontrivial", 1);
        if idx == 0 {
            sink.sample(|| self.describe(idx));
        }
        let mut prev: Option<(usize, f64)> = None;
        for &n in &f.sizes {
            let text = (f.make)(n);
            let t0 = crate::engine::CpuWatch::start();
            sink.count("states", 1);
            sink.count("transitions", 1);
            // announce the member about to run so that an abort names it
            sink.heartbeat(idx);
            let r = pipeline(&text);
            let dt = t0.seconds();
            match r {
                Ok(c) => {
                    sink.count("validated", 1);
                    sink.note("outcomes", c);
                    sink.note("family-completed", &format!("{}@{}:{}", f.name, n, c));
                }
                Err((site, m)) => {
                    sink.finding(Finding {
                        sig: format!("panic/{}/family={}", site, f.name),
                        what: format!("panic on hostile shape {} size {}", f.name, n),
                        case: format!("family {} size {}\n{}", f.name, n, crate::engine::sink::truncate(&text, 400)),
                        expected: "a value or an error".into(),
                        observed: m,
                    });
                    return;
                }
            }
            if dt > self.soft_cap {
                let (pn, pt) = prev.unwrap_or((0, 0.0));
                // polynomial growth up to cubic gives at most 8x per doubling; additive steps of 2
                // in an exponential family give 4x per step.  Report only super-polynomial evidence:
                // the member is over the cap while its predecessor was >= 2.5x faster for a +2 step,
                // or >= 16x faster for a doubling -- and only if that reproduces.
                let step_family = f.sizes.len() > 1 && f.sizes[1] - f.sizes[0] == 2 && f.sizes[0] == 2;
                let is_blowup = |dt: f64, pt: f64| {
                    let ratio = if pt > 0.0 { dt / pt } else { f64::INFINITY };
                    if step_family { ratio >= 2.5 } else { ratio >= 16.0 }
                };
                let time = |size: usize| {
                    let text = (f.make)(size);
                    let t0 = crate::engine::CpuWatch::start();
                    let _ = pipeline(&text);
                    t0.seconds()
                };
                match crate::engine::confirm_blowup(dt, pt, self.soft_cap, is_blowup, || time(n), || if pn > 0 { time(pn) } else { 0.0 }) {
                    Some((dt, pt)) => sink.finding(Finding {
                        sig: format!("blow-up/family={}", f.name),
                        what: format!("time blow-up on hostile shape {}", f.name),
                        case: format!("family {} size {}\n{}", f.name, n, crate::engine::sink::truncate(&text, 400)),
                        expected: format!("time polynomial in the input length (soft cap {} s)", self.soft_cap),
                        observed: format!("size {} took {:.3} s; size {} took {:.6} s (x{:.1}; medians of three runs)", n, dt, pn, pt, if pt > 0.0 { dt / pt } else { f64::INFINITY }),
                    }),
                    None => {
                        sink.note("family-capped", &format!("{}@{} {:.2}s (previous {}: {:.2}s)", f.name, n, dt, pn, pt));
                        // over the cap without a verdict: the next members decide (a super-polynomial family keeps growing), up to
                        // four caps
                        if step_family && dt <= 4.0 * self.soft_cap {
                            prev = Some((n, dt));
                            continue;
                        }
                    }
                }
                return;
            }
            prev = Some((n, dt));
        }
    }
}
