//! C01 — well-formed documents of the supported profile are accepted and yield the information
//! set they denote, whatever the surface spelling; in the xml_info view, the raw DOM view and the
//! merged-text DOM view.

use crate::engine::{guard, panic_site, Check, Finding, Meta, Sink, Space, Tier};
use crate::model::adoc::*;
use crate::model::gen::*;
use crate::model::wf;
use crate::obs::{self, Parsed, View};

pub struct C01C;
pub static C01: C01C = C01C;

impl Check for C01C {
    fn id(&self) -> &'static str {
        "C01"
    }
    fn stages(&self, _tier: Tier) -> Vec<String> {
        vec!["docs".into()]
    }
    fn prepare(&self, _stage: &str, tier: Tier, _input: &[String]) -> Box<dyn Space> {
        Box::new(DocSpace::new(tier.pick(3, 4), tier.pick(2, 2), tier.pick(1, 2), tier))
    }
    fn meta(&self) -> Meta {
        Meta {
            rule: "model state = abstract document: an element skeleton (every ordered tree with <= N elements) plus a set of <= k decorations drawn from a menu of ~60 content items, attributes, namespace declarations, renames and ~70 prolog/DTD items; every model state is rendered canonically and in every rendering within k' surface deviations (quote style, white space at each optional-S position, empty-element form, attribute order, character-reference spelling, XML-declaration spelling); each rendering is parsed by the implementation three ways (xml_parser+xml_info, xml_dom raw, xml_dom merged-text) and the complete observation compared with the information set computed from the abstract document. Non-trivial = at least one decoration. Each generated document is first confirmed well-formed by the independent reference recogniser (model self-check).",
            bounds_quick: "skeletons <= 3 elements, k = 2 decorations, k' = 1 surface deviation (k' applied to documents with <= 1 decoration; 2-decoration documents: canonical rendering + all-alternate rendering)",
            bounds_thorough: "skeletons <= 4 elements, k = 2 decorations, k' = 2 surface deviations on documents with <= 1 decoration, k' = 1 on 2-decoration documents",
            assumptions: &[
                "expected information set = the abstract document (reference semantics in mc/src/model/adoc.rs: entity replacement text per XML 1.0 4.5, attribute normalisation per 3.3.3, line-end handling per 2.11)",
                "items the library does not keep by design (white space between prolog items, ELEMENT declarations, DTD comments) are not demanded",
            ],
            unbounded_total: false,
        }
    }
}

pub struct DocSpace {
    skels: Vec<AElem>,
    decos: Vec<Vec<LDeco>>,
    offsets: Vec<u64>,
    k: usize,
    kprime: usize,
    tier: Tier,
    total: u64,
}

impl DocSpace {
    pub fn new(max_elems: usize, k: usize, kprime: usize, tier: Tier) -> DocSpace {
        let skels = skeletons(max_elems);
        let decos: Vec<Vec<LDeco>> = skels.iter().map(decorations).collect();
        let mut offsets = vec![];
        let mut total = 0;
        for d in &decos {
            offsets.push(total);
            total += subsets_upto(d.len() as u64, k);
        }
        DocSpace { skels, decos, offsets, k, kprime, tier, total }
    }

    pub fn case(&self, idx: u64) -> (usize, Vec<usize>) {
        let mut s = self.skels.len() - 1;
        for (i, o) in self.offsets.iter().enumerate() {
            if *o > idx {
                s = i - 1;
                break;
            }
        }
        let sub = nth_subset(self.decos[s].len() as u64, self.k, idx - self.offsets[s]);
        (s, sub)
    }

    pub fn build(&self, s: usize, sub: &[usize]) -> (ADoc, Vec<String>) {
        let ds: Vec<&LDeco> = sub.iter().map(|i| &self.decos[s][*i]).collect();
        let labels = ds.iter().map(|d| d.label.clone()).collect();
        (apply(&self.skels[s], &ds), labels)
    }

    pub fn len(&self) -> u64 {
        self.total
    }
}

/// project the expected info dump onto what the DOM view shows
pub fn to_dom_expected(info: &str) -> String {
    let mut out: Vec<String> = vec![];
    let mut attr_block: Vec<String> = vec![];
    let mut in_doctype = false;
    fn flush(block: &mut Vec<String>, out: &mut Vec<String>) {
        block.sort();
        out.append(block);
    }
    for l in info.lines() {
        let ind = l.len() - l.trim_start().len();
        let t = l.trim_start();
        let pad = " ".repeat(ind);
        if !t.starts_with("attr ") {
            flush(&mut attr_block, &mut out);
        }
        if ind <= 1 {
            in_doctype = false;
        }
        if t.starts_with("document ") {
            out.push("document".into());
        } else if t.starts_with("[notations]") || t.starts_with("[unparsed-entities]") || t.starts_with("nsdecl ") {
        } else if let Some(rest) = t.strip_prefix("doctype ") {
            in_doctype = true;
            let name = rest.split(' ').next().unwrap_or("");
            let local = name.rsplit(':').next().unwrap_or(name);
            out.push(format!("{}doctype {}", pad, local));
        } else if in_doctype && t.starts_with("entity ") {
            // drop value=
            let mut parts: Vec<&str> = vec![];
            let mut rest = t;
            if let Some(p) = rest.find(" value=") {
                parts.push(&rest[..p]);
                rest = &rest[p + 7..];
                // skip the quoted value or '-'
                let after = skip_token(rest);
                parts.push(after);
                out.push(format!("{}{}{}", pad, parts[0], parts[1]));
            } else {
                out.push(l.to_string());
            }
        } else if in_doctype && t.starts_with("pi ") {
        } else if let Some(rest) = t.strip_prefix("element ") {
            let local = rest.rsplit(':').next().unwrap_or(rest);
            out.push(format!("{}element {}", pad, local));
        } else if let Some(rest) = t.strip_prefix("attr ") {
            // attr p:x = "v" specified
            let (name, tail) = rest.split_once(" = ").unwrap_or((rest, ""));
            let local = name.rsplit(':').next().unwrap_or(name);
            let val = tail.rsplit_once(' ').map(|x| x.0).unwrap_or(tail);
            attr_block.push(format!("{}attr {} = {}", pad, local, val));
        } else {
            out.push(l.to_string());
        }
    }
    flush(&mut attr_block, &mut out);
    let mut s = out.join("\n");
    s.push('\n');
    s
}

fn skip_token(s: &str) -> &str {
    // s starts with "-" or a quoted string produced by obs::q; returns the remainder
    if let Some(r) = s.strip_prefix('-') {
        return r;
    }
    let b = s.as_bytes();
    let mut i = 1;
    while i < b.len() {
        if b[i] == b'\\' {
            i += 2;
            continue;
        }
        if b[i] == b'"' {
            return &s[i + 1..];
        }
        i += 1;
    }
    ""
}

/// First difference between expected and observed dumps, classified as an extra observed line,
/// a missing expected line, or a changed line.  Returns (class:kind, expected line, observed line).
pub fn first_diff(a: &str, b: &str) -> (String, String) {
    let (_, e, o) = classify_diff(a, b);
    (e, o)
}

pub fn classify_diff(exp: &str, obs: &str) -> (String, String, String) {
    let e: Vec<&str> = exp.lines().collect();
    let o: Vec<&str> = obs.lines().collect();
    let mut i = 0;
    while i < e.len() && i < o.len() && e[i] == o[i] {
        i += 1;
    }
    let el = e.get(i).map(|x| x.trim()).unwrap_or("<end>").to_string();
    let ol = o.get(i).map(|x| x.trim()).unwrap_or("<end>").to_string();
    let class = if i < o.len() && o.get(i + 1) == e.get(i) && e.get(i).is_some() || (i >= e.len() && i < o.len()) {
        format!("extra:{}", line_kind(&ol))
    } else if i < e.len() && e.get(i + 1) == o.get(i) && o.get(i).is_some() || (i >= o.len() && i < e.len()) {
        format!("missing:{}", line_kind(&el))
    } else {
        format!("changed:{}", line_kind(&el))
    };
    (class, el, ol)
}

fn line_kind(l: &str) -> &str {
    l.split(' ').next().unwrap_or("")
}

#[derive(Debug, Clone, PartialEq)]
pub struct Deviation {
    pub kind: &'static str,
    pub detail: String,
    pub expected: String,
    pub observed: String,
}

/// Compare one rendering with the expectation in all three views.
pub fn check_rendering(text: &str, exp_raw: &str, exp_merged: &str) -> Option<Deviation> {
    // 1. xml_parser + xml_info
    let r = guard(|| {
        let (p, doc) = obs::parse_info(text);
        match p {
            Parsed::Complete => {
                let d = doc.unwrap();
                Ok((obs::info_dump(&d, View::Raw), obs::info_dump(&d, View::Merged)))
            }
            other => Err(other),
        }
    });
    match r {
        Err(m) => {
            return Some(Deviation { kind: "panic", detail: panic_site(&m), expected: "Ok, rest empty".into(), observed: m })
        }
        Ok(Err(Parsed::Rest(rest))) => {
            return Some(Deviation {
                kind: "rest-nonempty",
                detail: "info".into(),
                expected: "no unconsumed input".into(),
                observed: format!("rest = {}", obs::q(&rest)),
            })
        }
        Ok(Err(Parsed::Err(e))) => {
            return Some(Deviation {
                kind: "rejected-wellformed",
                detail: e.split(|c: char| c == '(' || c == ':').next().unwrap_or("").trim().to_string(),
                expected: "Ok, rest empty".into(),
                observed: e,
            })
        }
        Ok(Err(Parsed::Complete)) => unreachable!(),
        Ok(Ok((raw, merged))) => {
            if raw != exp_raw {
                let (c, e, o) = classify_diff(exp_raw, &raw);
                return Some(Deviation {
                    kind: "item-mismatch",
                    detail: format!("info-raw:{}", c),
                    expected: format!("{}\n--- full expected\n{}", e, exp_raw),
                    observed: format!("{}\n--- full observed\n{}", o, raw),
                });
            }
            if merged != exp_merged {
                let (c, e, o) = classify_diff(exp_merged, &merged);
                return Some(Deviation {
                    kind: "item-mismatch",
                    detail: format!("info-merged:{}", c),
                    expected: format!("{}\n--- full expected\n{}", e, exp_merged),
                    observed: format!("{}\n--- full observed\n{}", o, merged),
                });
            }
        }
    }
    // 2./3. DOM views
    let exp_dom_raw = to_dom_expected(exp_raw);
    let exp_dom_merged = to_dom_expected(exp_merged);
    for (expanded, exp) in [(false, &exp_dom_raw), (true, &exp_dom_merged)] {
        let r = guard(|| {
            let (p, doc) = obs::parse_dom(text, expanded);
            match p {
                Parsed::Complete => Ok(obs::dom_dump(&doc.unwrap(), if expanded { View::Merged } else { View::Raw })),
                other => Err(other),
            }
        });
        let vname = if expanded { "dom-merged" } else { "dom-raw" };
        match r {
            Err(m) => {
                return Some(Deviation { kind: "panic", detail: format!("{}:{}", vname, panic_site(&m)), expected: "Ok".into(), observed: m })
            }
            Ok(Err(p)) => {
                return Some(Deviation {
                    kind: "rejected-wellformed",
                    detail: vname.into(),
                    expected: "Ok, rest empty".into(),
                    observed: format!("{:?}", p),
                })
            }
            Ok(Ok(d)) => {
                if &d != exp {
                    let (c, e, o) = classify_diff(exp, &d);
                    return Some(Deviation {
                        kind: "item-mismatch",
                        detail: format!("{}:{}", vname, c),
                        expected: format!("{}\n--- full expected\n{}", e, exp),
                        observed: format!("{}\n--- full observed\n{}", o, d),
                    });
                }
            }
        }
    }
    None
}

impl DocSpace {
    /// renderings of a document according to the tier's surface-deviation bound
    fn renderings_for(&self, d: &ADoc, ndeco: usize) -> Vec<(String, String)> {
        let mut c0 = Choices::canonical();
        let base = render(d, &mut c0);
        let seen = c0.seen.clone();
        let mut out = vec![(base, "canonical".to_string())];
        let kp = if ndeco <= 1 { self.kprime } else { self.kprime - 1 };
        if kp == 0 {
            // one rendering with every choice point on its first alternative
            let tape: Vec<(usize, usize)> = seen.iter().enumerate().filter(|(_, n)| **n > 1).map(|(i, _)| (i, 1)).collect();
            out.push((render(d, &mut Choices::with(tape)), "all-alternate".into()));
            return out;
        }
        for (i, n) in seen.iter().enumerate() {
            for o in 1..*n {
                out.push((render(d, &mut Choices::with(vec![(i, o)])), format!("choice{}#{}", n, o)));
            }
        }
        if kp >= 2 {
            for (i, n) in seen.iter().enumerate() {
                for o in 1..(*n).min(3) {
                    for (j, m) in seen.iter().enumerate().skip(i + 1) {
                        for p in 1..(*m).min(3) {
                            out.push((render(d, &mut Choices::with(vec![(i, o), (j, p)])), format!("choice{}#{}+choice{}#{}", n, o, m, p)));
                        }
                    }
                }
            }
        }
        out
    }

    fn check_doc(&self, d: &ADoc, ndeco: usize, sink: &mut Sink) -> Option<(Deviation, String, String)> {
        let exp_raw = match expected_info_dump(d, View::Raw) {
            Ok(x) => x,
            Err(_) => return None,
        };
        let exp_merged = expected_info_dump(d, View::Merged).unwrap();
        let rs = self.renderings_for(d, ndeco);
        let mut first = None;
        for (text, how) in rs {
            sink.count("transitions", 3);
            match check_rendering(&text, &exp_raw, &exp_merged) {
                None => sink.count("validated", 1),
                Some(dev) => {
                    if first.is_none() {
                        first = Some((dev, text, how));
                    }
                }
            }
        }
        first
    }
}

impl Space for DocSpace {
    fn len(&self) -> u64 {
        self.total
    }
    fn describe(&self, idx: u64) -> String {
        let (s, sub) = self.case(idx);
        let (d, labels) = self.build(s, &sub);
        format!("{}\n(skeleton {} + decorations {:?})", render_canonical(&d), s, labels)
    }
    fn run(&self, idx: u64, sink: &mut Sink) {
        let (s, sub) = self.case(idx);
        let (d, labels) = self.build(s, &sub);
        let canon = render_canonical(&d);
        // model self-check: the independent recogniser must accept the rendering and read back
        // the same abstract document; otherwise the case is not a well-formed document (e.g. two
        // decorations adding the same attribute) and is outside the property's quantifier
        match wf::recognise(&canon) {
            wf::Verdict::WellFormed(back) => {
                if *back != d {
                    sink.count("model-roundtrip-mismatch", 1);
                    sink.note("model-roundtrip-mismatch", &format!("{:?}", labels));
                    return;
                }
            }
            _ => {
                sink.count("not-wellformed-combination", 1);
                return;
            }
        }
        if !wf::in_profile(&d) {
            sink.count("out-of-profile", 1);
            return;
        }
        sink.count("states", 1);
        if !sub.is_empty() {
            sink.count("nontrivial", 1);
        }
        if idx % 997 == 3 {
            sink.sample(|| format!("{}  [{}]", canon, labels.join(", ")));
        }
        let _ = self.tier;
        if let Some((dev, text, how)) = self.check_doc(&d, sub.len(), sink) {
            // shrink inside the space: does a sub-case (one decoration less) fail the same way?
            let mut culprit: Vec<String> = labels.iter().map(|l| strip_site(l)).collect();
            let mut dev = dev;
            if sub.len() >= 2 {
                for drop in 0..sub.len() {
                    let mut smaller = sub.clone();
                    smaller.remove(drop);
                    let (d2, l2) = self.build(s, &smaller);
                    let mut scratch = Sink::new(Box::new(std::io::sink()), true);
                    if let Some((dev2, _, _)) = self.check_doc(&d2, smaller.len(), &mut scratch) {
                        if dev2.kind == dev.kind {
                            culprit = l2.iter().map(|l| strip_site(l)).collect();
                            dev.detail = dev2.detail.clone();
                            break;
                        }
                    }
                }
            }
            culprit.sort();
            let how_sig = if how == "canonical" { "canonical".to_string() } else { "respelled".to_string() };
            sink.note("deviation-kinds", dev.kind);
            sink.finding(Finding {
                sig: format!("{}/{}/{}/{}", dev.kind, dev.detail, culprit.join("+"), how_sig),
                what: format!("{} ({}) for a well-formed document with {:?} [{}]", dev.kind, dev.detail, labels, how),
                case: format!("{}\n(decorations {:?}; rendering: {})", text, labels, how),
                expected: dev.expected,
                observed: dev.observed,
            });
        }
    }
}

/// "e2:first:text-t" -> "first:text-t": the element index is not part of a signature
fn strip_site(l: &str) -> String {
    if l.starts_with('e') {
        if let Some((head, tail)) = l.split_once(':') {
            if head[1..].chars().all(|c| c.is_ascii_digit()) {
                return tail.replace("first:", "").replace("last:", "");
            }
        }
    }
    l.to_string()
}
