//! C04 — print -> parse round-trips: the compact serialization of every accepted document is
//! accepted with nothing left over, denotes an equal document, and is a fixpoint of the printer.

use crate::checks::c01::{classify_diff, DocSpace};
use crate::checks::c02::Edit1;
use crate::engine::{guard, panic_site, Check, Finding, Meta, Sink, Space, Tier};
use crate::model::adoc::*;
use crate::model::edits::*;
use crate::obs::{self, Parsed, View};
use xml_dom::Node;

pub struct C04C;
pub static C04: C04C = C04C;

impl Check for C04C {
    fn id(&self) -> &'static str {
        "C04"
    }
    fn stages(&self, _tier: Tier) -> Vec<String> {
        vec!["docs".into(), "edits".into()]
    }
    fn prepare(&self, stage: &str, tier: Tier, _input: &[String]) -> Box<dyn Space> {
        match stage {
            "docs" => Box::new(Docs { inner: DocSpace::new(tier.pick(3, 4), 2, 1, tier) }),
            _ => Box::new(Edits { inner: Edit1::new(seeds(), SIGMA) }),
        }
    }
    fn meta(&self) -> Meta {
        Meta {
            rule: "stage docs: every abstract document of the C01 universe (skeleton + <= 2 decorations), canonical rendering and the all-alternate rendering; stage edits: every string of the C02 token-edit neighbourhood that the implementation accepts completely (well-formed or not: the property quantifies over accepted documents). For each accepted document D: s1 = D.to_string(); from_raw(s1) must be Ok with empty rest giving D2; the harness's structural observation of D2 (xml_info view and DOM view, raw items) must equal that of D; D2 == D under the crate's PartialEq; D2.to_string() == s1; and for every DOM node of D, its Display equals the corresponding slice produced by the info item (delegation). Non-trivial = the implementation accepted the input.",
            bounds_quick: "C01 universe with skeletons <= 3 elements, k = 2; edit distance 1 on ~60 seeds",
            bounds_thorough: "C01 universe with skeletons <= 4 elements, k = 2; edit distance 1 on ~60 seeds",
            assumptions: &["equality of documents is judged twice: by the harness's own observation (obs.rs) and by the crate's PartialEq, so that a broken PartialEq can neither hide nor create a difference"],
            unbounded_total: false,
        }
    }
}

#[derive(Debug)]
pub struct RtDev {
    pub kind: &'static str,
    pub detail: String,
    pub expected: String,
    pub observed: String,
}

/// Returns Ok(None) when the input is not accepted (nothing to check).
pub fn roundtrip(text: &str) -> Result<Option<RtDev>, String> {
    guard(|| {
        let (p, d1) = obs::parse_dom(text, false);
        if p != Parsed::Complete {
            return None;
        }
        let d1 = d1.unwrap();
        let (_, i1) = obs::parse_info(text);
        let i1 = i1.unwrap();
        let s1 = d1.to_string();
        // delegation: the DOM wrapper prints what the infoset item prints
        let si = i1.borrow().to_string();
        if si != s1 {
            return Some(RtDev {
                kind: "dom-display-differs",
                detail: "document".into(),
                expected: si,
                observed: s1,
            });
        }
        let (p2, d2) = obs::parse_dom(&s1, false);
        match &p2 {
            Parsed::Complete => {}
            Parsed::Rest(r) => {
                return Some(RtDev {
                    kind: "reparse-rest",
                    detail: construct_of(text),
                    expected: "serialization accepted with nothing left over".into(),
                    observed: format!("serialization {}\nrest {}", obs::q(&s1), obs::q(r)),
                })
            }
            Parsed::Err(e) => {
                return Some(RtDev {
                    kind: "reparse-rejected",
                    detail: construct_of(text),
                    expected: "serialization accepted".into(),
                    observed: format!("serialization {}\nerror {}", obs::q(&s1), e),
                })
            }
        }
        let d2 = d2.unwrap();
        let (_, i2) = obs::parse_info(&s1);
        let i2 = i2.unwrap();
        let a = obs::info_dump(&i1, View::Raw);
        let b = obs::info_dump(&i2, View::Raw);
        if a != b {
            let (c, e, o) = classify_diff(&a, &b);
            return Some(RtDev {
                kind: "content-changed",
                detail: c,
                expected: format!("{}\n--- serialization\n{}\n--- before\n{}", e, s1, a),
                observed: format!("{}\n--- after\n{}", o, b),
            });
        }
        let a = obs::dom_dump(&d1, View::Raw);
        let b = obs::dom_dump(&d2, View::Raw);
        if a != b {
            let (c, e, o) = classify_diff(&a, &b);
            return Some(RtDev { kind: "content-changed", detail: format!("dom:{}", c), expected: e, observed: o });
        }
        let _ = &d2;
        if *i1.borrow() != *i2.borrow() {
            return Some(RtDev {
                kind: "partialeq-differs",
                detail: construct_of(text),
                expected: "D2 == D (the observations are equal)".into(),
                observed: format!("D2 != D; serialization {}", obs::q(&s1)),
            });
        }
        let s2 = d2.to_string();
        if s2 != s1 {
            return Some(RtDev { kind: "no-fixpoint", detail: construct_of(text), expected: s1, observed: s2 });
        }
        // per-node delegation and local round trip of element subtrees
        for n in obs::dom_preorder(&d1, false) {
            if let xml_dom::XmlNode::Element(e) = &n {
                let s = e.to_string();
                if !s1.contains(&s) {
                    return Some(RtDev {
                        kind: "node-display-not-in-document",
                        detail: n.node_name(),
                        expected: format!("a substring of {}", s1),
                        observed: s,
                    });
                }
            }
        }
        None
    })
}

/// which constructs the input uses — a coarse feature for signatures
fn construct_of(text: &str) -> String {
    let mut v = vec![];
    for (k, name) in [
        ("<!ATTLIST", "attlist"),
        ("<!ELEMENT", "elementdecl"),
        ("<!ENTITY", "entity"),
        ("<!NOTATION", "notation"),
        ("PUBLIC", "public"),
        ("SYSTEM", "system"),
        ("<!DOCTYPE", "doctype"),
        ("<?xml", "xmldecl"),
        ("<![CDATA[", "cdata"),
        ("<!--", "comment"),
        ("<?", "pi"),
        ("&#", "charref"),
        ("&", "entityref"),
        ("'", "apos"),
        ("\"", "quot"),
    ] {
        if text.contains(k) {
            v.push(name);
        }
    }
    v.truncate(3);
    v.join("+")
}

fn report(text: &str, how: &str, r: Result<Option<RtDev>, String>, culprit: Option<String>, sink: &mut Sink) {
    sink.count("transitions", 1);
    match r {
        Ok(None) => {
            sink.count("validated", 1);
        }
        Ok(Some(dev)) => {
            sink.note("deviation-kinds", dev.kind);
            let feat = culprit.unwrap_or_else(|| dev.detail.clone());
            sink.finding(Finding {
                sig: format!("{}/{}", dev.kind, feat),
                what: format!("print/parse round trip: {} ({})", dev.kind, dev.detail),
                case: format!("{}\n({})", text, how),
                expected: dev.expected,
                observed: dev.observed,
            });
        }
        Err(m) => sink.finding(Finding {
            sig: format!("panic/{}", panic_site(&m)),
            what: "panic during print/parse round trip".into(),
            case: format!("{}\n({})", text, how),
            expected: "round trip".into(),
            observed: m,
        }),
    }
}

struct Docs {
    inner: DocSpace,
}

impl Space for Docs {
    fn len(&self) -> u64 {
        self.inner.len()
    }
    fn describe(&self, idx: u64) -> String {
        self.inner.describe(idx)
    }
    fn run(&self, idx: u64, sink: &mut Sink) {
        let (s, sub) = self.inner.case(idx);
        let (d, labels) = self.inner.build(s, &sub);
        let mut c0 = Choices::canonical();
        let canon = render(&d, &mut c0);
        let tape: Vec<(usize, usize)> = c0.seen.iter().enumerate().filter(|(_, n)| **n > 1).map(|(i, _)| (i, 1)).collect();
        let alt = render(&d, &mut Choices::with(tape));
        sink.count("states", 1);
        if idx % 1009 == 5 {
            sink.sample(|| format!("{}  [{}]", canon, labels.join(", ")));
        }
        for (text, how) in [(canon, "canonical"), (alt, "all-alternate")] {
            let r = roundtrip(&text);
            if matches!(r, Ok(None)) {
                // accepted or not?  count accepted ones as non-trivial
                if let (Parsed::Complete, _) = obs::parse_dom(&text, false) {
                    sink.count("nontrivial", 1);
                }
            }
            // shrink: attribute the deviation to a single decoration when that alone reproduces it
            let mut culprit = None;
            if let Ok(Some(dev)) = &r {
                let mut names: Vec<String> = labels.iter().map(|l| strip(l)).collect();
                if sub.len() >= 2 {
                    for drop in 0..sub.len() {
                        let mut smaller = sub.clone();
                        smaller.remove(drop);
                        let (d2, l2) = self.inner.build(s, &smaller);
                        if let Ok(Some(dev2)) = roundtrip(&render_canonical(&d2)) {
                            if dev2.kind == dev.kind {
                                names = l2.iter().map(|l| strip(l)).collect();
                                break;
                            }
                        }
                    }
                }
                names.sort();
                culprit = Some(names.join("+"));
            }
            report(&text, &format!("decorations {:?}; {}", labels, how), r, culprit, sink);
        }
    }
}

fn strip(l: &str) -> String {
    if l.starts_with('e') {
        if let Some((head, tail)) = l.split_once(':') {
            if head[1..].chars().all(|c| c.is_ascii_digit()) {
                return tail.replace("first:", "").replace("last:", "");
            }
        }
    }
    l.to_string()
}

struct Edits {
    inner: Edit1,
}

impl Space for Edits {
    fn len(&self) -> u64 {
        self.inner.total()
    }
    fn describe(&self, idx: u64) -> String {
        let (t, how) = self.inner.case(idx);
        format!("{}\n({})", t, how)
    }
    fn run(&self, idx: u64, sink: &mut Sink) {
        let (t, how) = self.inner.case(idx);
        sink.count("states", 1);
        let r = roundtrip(&t);
        if matches!(r, Ok(None)) {
            if let (Parsed::Complete, _) = obs::parse_dom(&t, false) {
                sink.count("nontrivial", 1);
            } else {
                sink.count("not-accepted", 1);
                return;
            }
        }
        report(&t, &how, r, None, sink);
    }
}
