//! C15 — edits that succeed keep the document serializable and faithful.

use crate::checks::c12::stages_for;
use crate::checks::dombfs::*;
use crate::engine::{guard, panic_site, Check, Meta, Space, Tier};
use crate::model::dom::{Kind, Op};
use crate::obs;
use xml_dom::{AsNode, Attr, CharacterData, Element, NamedNodeMap, Node, ProcessingInstruction, XmlNode};

pub struct C15C;
pub static C15: C15C = C15C;

/// pieces whose combinations form the markup-significant sequences
pub const PIECES: &[&str] = &["a", " ", "-", "--", "]", "]]", ">", "]]>", "?", "?>", "<", "&", "&amp;", "\"", "'", "é", " x", "\tx ", "x\n", "&e;"];
pub const PIECES_QUICK: &[&str] = &["a", "-", "]", ">", "?", "<", "&", "\"", "'", " x", "&e;"];
pub const NAMES: &[&str] = &["n", "a:b", "1t", "t t", "xml", "a<b", "a\"b", "", "xmlns:a", "xmlns"];

/// what the DOM reports for the attached document, in the form a re-parse can be compared with
pub fn content_dump(doc: &xml_dom::XmlDocument) -> String {
    fn rec(n: &XmlNode, out: &mut String) {
        match n {
            XmlNode::Document(_) => {
                out.push_str("doc(");
                kids(n, out);
                out.push(')');
            }
            XmlNode::DocumentType(_) => out.push_str(&format!("doctype({})", n.node_name())),
            XmlNode::Element(e) => {
                out.push_str(&format!("elem({}", e.tag_name()));
                if let Some(attrs) = e.attributes() {
                    let mut v: Vec<String> = attrs
                        .iter()
                        .map(|a| format!(" @{}={:?}", a.name(), a.value().unwrap_or_else(|e| format!("<error {:?}>", e))))
                        .collect();
                    v.sort();
                    for a in v {
                        out.push_str(&a);
                    }
                }
                out.push_str(": ");
                kids(n, out);
                out.push(')');
            }
            XmlNode::Comment(c) => out.push_str(&format!("comment({:?})", c.data().unwrap_or_default())),
            XmlNode::CData(c) => out.push_str(&format!("cdata({:?})", c.data().unwrap_or_default())),
            XmlNode::PI(p) => out.push_str(&format!("pi({:?},{:?})", p.target(), p.data())),
            XmlNode::EntityReference(_) => out.push_str(&format!("ref({})", n.node_name())),
            other => out.push_str(&format!("other({})", other.node_name())),
        }
    }
    fn kids(n: &XmlNode, out: &mut String) {
        let mut run: Option<String> = None;
        for c in n.child_nodes().iter() {
            let t = match &c {
                XmlNode::Text(t) => Some(t.data().unwrap_or_default()),
                XmlNode::ExpandedText(t) => Some(t.data().unwrap_or_default()),
                _ => None,
            };
            match t {
                Some(t) => match run.as_mut() {
                    Some(r) => r.push_str(&t),
                    None => run = Some(t),
                },
                None => {
                    if let Some(r) = run.take() {
                        if !r.is_empty() {
                            out.push_str(&format!("text({:?})", r));
                        }
                    }
                    rec(&c, out);
                }
            }
        }
        if let Some(r) = run.take() {
            if !r.is_empty() {
                out.push_str(&format!("text({:?})", r));
            }
        }
    }
    let mut s = String::new();
    rec(&doc.as_node(), &mut s);
    s
}

/// (kind, expected, observed) if the attached document does not survive print -> parse
pub fn serial_monitor(l: &Live) -> Option<(String, String, String)> {
    let text = match guard(|| l.doc.to_string()) {
        Ok(t) => t,
        Err(m) => return Some((format!("cannot be printed (panic {})", panic_site(&m)), "a serialization".into(), m)),
    };
    let reported = match guard(|| content_dump(&l.doc)) {
        Ok(d) => d,
        Err(m) => return Some((format!("cannot be inspected (panic {})", panic_site(&m)), "accessors work".into(), m)),
    };
    let (p, reparsed) = obs::parse_dom(&text, l.expanded);
    match (p, reparsed) {
        (obs::Parsed::Complete, Some(d)) => {
            let again = content_dump(&d);
            if again != reported {
                Some((
                    "denotes different content".into(),
                    format!("the DOM reports {}", reported),
                    format!("{} parses back to {}", obs::q(&text), again),
                ))
            } else {
                None
            }
        }
        (p, _) => Some((
            "is rejected by the parser".into(),
            format!("a well-formed serialization of {}", reported),
            format!("{} -> {:?}", obs::q(&text), p),
        )),
    }
}

fn specials(s: &str) -> String {
    let mut v = vec![];
    for (pat, name) in [("]]>", "cdend"), ("--", "dashdash"), ("?>", "piend"), (">", "gt"), ("<", "lt"), ("&", "amp"), ("\"", "quot"), ("'", "apos")] {
        if s.contains(pat) {
            v.push(name);
        }
    }
    if s.ends_with('-') {
        v.push("enddash");
    }
    if s.ends_with(']') {
        v.push("endbracket");
    }
    if s.starts_with(' ') || s.starts_with('\t') {
        v.push("leading-space");
    }
    if v.is_empty() {
        "plain".into()
    } else {
        v.join("+")
    }
}

/// "]]>" spelled by two or more adjacent Text nodes none of which contains it alone
fn cdend_across_text_nodes(l: &Live) -> bool {
    for (i, n) in l.pool.iter().enumerate() {
        if l.is_foreign[i] || kind_of(n) != Kind::Element {
            continue;
        }
        let mut run = String::new();
        let mut single = false;
        for c in n.child_nodes().iter() {
            if let XmlNode::Text(t) = &c {
                let d = t.data().unwrap_or_default();
                single |= d.contains("]]>");
                run.push_str(&d);
            } else {
                if run.contains("]]>") && !single {
                    return true;
                }
                run.clear();
                single = false;
            }
        }
        if run.contains("]]>") && !single {
            return true;
        }
    }
    false
}

/// the node a call worked on and the special sequences its data holds after the call
pub fn op_features(l: &Live, op: &Op) -> String {
    if cdend_across_text_nodes(l) {
        return "adjacent-text-nodes-spell-cdend".into();
    }
    let node_feat = |h: &usize| -> String {
        let n = &l.pool[*h];
        let mut k = kind_of(n);
        if k == Kind::Text {
            if let Some(p) = n.parent_node() {
                if kind_of(&p) == Kind::Attr {
                    k = Kind::Attr;
                }
            }
        }
        format!("{}:{}", k.tag(), specials(&Live::value_of(n)))
    };
    match op {
        Op::AppendData(h, _) | Op::InsertData(h, _, _) | Op::DeleteData(h, _, _) | Op::ReplaceData(h, _, _, _) | Op::SetData(h, _) | Op::SetNodeValue(h, _) | Op::SplitText(h, _) => node_feat(h),
        Op::Append(_, c) | Op::InsertBefore(_, c, _) | Op::Replace(_, c, _) => node_feat(c),
        Op::SetAttribute(_, n, v) => format!("attr:{}={}", str_class(n), specials(v)),
        Op::CreateElement(n) | Op::CreateAttribute(n) => str_class(n),
        _ => String::new(),
    }
}

const DOC_A: &str = "<r x=\"v\"><t>a]]</t><!--a-x--><![CDATA[a]]]]><?p a??></r>";
const DOC_B: &str = "<r x=\"&quot;\" y=\"'\"><t>&lt;a&amp;</t><u/></r>";

impl Check for C15C {
    fn id(&self) -> &'static str {
        "C15"
    }
    fn stages(&self, tier: Tier) -> Vec<String> {
        stages_for(tier.pick(2, 3))
    }
    fn prepare(&self, stage: &str, tier: Tier, input: &[String]) -> Box<dyn Space> {
        let depth = tier.pick(2, 3);
        let docs = vec![
            InitialDoc { text: DOC_A, foreign: None, expanded: false },
            InitialDoc { text: DOC_B, foreign: None, expanded: false },
            InitialDoc { text: "<r/>", foreign: None, expanded: false },
            // an attribute value may hold what element content may not: its value node, once detached, can be attached elsewhere
            InitialDoc { text: "<r x=\"]]>\"><t>v</t></r>", foreign: None, expanded: false },
            // an entity that is fine in content and not in an attribute value ('<' in its replacement text), referenced in content
            InitialDoc { text: "<!DOCTYPE r [<!ENTITY e \"&#60;b\">]><r>&e;<t/></r>", foreign: None, expanded: false },
            // one attribute name with two declared types: a node moved from one element type to the other is normalized anew
            InitialDoc { text: "<!DOCTYPE r [<!ATTLIST r n CDATA #IMPLIED><!ATTLIST t n NMTOKENS #IMPLIED>]><r n=\" a  b \"><t/></r>", foreign: None, expanded: false },
            // a written attribute that has a default in the DTD: removing it brings the default back, in the DOM as in a re-parse
            InitialDoc { text: "<!DOCTYPE r [<!ATTLIST r n CDATA \"d\" m NMTOKENS \" k  l \">]><r n=\"v\"><t/></r>", foreign: None, expanded: false },
        ];
        let frontier = if stage == "bfs0" { (0..docs.len()).map(|i| (i, vec![])).collect() } else { parse_frontier(input) };
        let pieces = tier.pick(PIECES_QUICK, PIECES);
        Box::new(DomBfs {
            prop: "C15",
            docs,
            alphabet: Alphabet {
                structural: false,
                creations: true,
                attributes: true,
                split: true,
                set_value: true,
                max_creations: 1,
                names: NAMES,
                values: pieces,
                chardata: pieces,
                chardata_extra: 0,
                chardata_full: false,
                attach_only: true,
                attr_names: &[],
            },
            monitors: Monitors { tree: false, spec: false, order: false, chardata: false, serial: true },
            frontier,
            expand: stage != format!("bfs{}", depth - 1),
            order_queries: &[],
            warm_queries: &[],
            max_depth: vec![],
        })
    }
    fn case_cap(&self, tier: Tier) -> f64 {
        tier.pick(30.0, 120.0)
    }
    fn meta(&self) -> Meta {
        Meta {
            rule: "explicit-state BFS over histories of creation (create_text_node / comment / cdata_section / processing_instruction / element / attribute with every name and data string of the alphabet), attachment (append_child of the created node under every attached element), attribute setting, value setting and character-data editing (append_data, insert_data at every offset, delete_data with every offset and count, set_data, split_text) on documents whose nodes already hold the first half of a forbidden sequence (text 'a]]', comment 'a-x', CDATA 'a]]', PI data 'a?', attribute values with quotes). After every call that reports success and changes the document: document.to_string() must be accepted completely by XmlDocument::from_raw, and what the DOM reports for the edited document (element and attribute names, attribute values, merged text, CDATA, comment data, PI target and data) must equal what the re-parsed document reports. A call may refuse instead; a panic is reported by C13. Non-trivial = the call succeeded or changed the state.",
            bounds_quick: "7 initial documents (DTD defaults behind a written attribute; an entity usable in content only; one attribute name with two declared types), depth 2, 11 string pieces, 8 names, 1 created node per history",
            bounds_thorough: "7 initial documents, depth 3, 20 string pieces, 8 names, 1 created node per history",
            assumptions: &["only the attached document is serialized; a detached node with unrepresentable data is judged once it is attached"],
            unbounded_total: false,
        }
    }
}
