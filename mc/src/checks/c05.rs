//! C05 — XPath evaluation returns the value XPath 1.0 prescribes.

use crate::checks::xgen;
use crate::checks::xp::*;
use crate::engine::{panic_site, Check, Finding, Meta, Sink, Space, Tier};
use crate::model::adoc::ADoc;
use crate::model::xpath::*;

pub struct C05C;
pub static C05: C05C = C05C;

pub struct DocExprs {
    pub docs: Vec<ADoc>,
    pub exprs: Vec<Expr>,
    pub bindings: Bindings,
    pub prop: &'static str,
}

pub fn has_defaulted_attribute(d: &ADoc) -> bool {
    use crate::model::adoc::{ADecl, ADefault};
    d.doctype
        .as_ref()
        .map(|t| t.decls.iter().any(|x| matches!(x, ADecl::AttList { defs, .. } if defs.iter().any(|a| matches!(a.default, ADefault::Value { .. })))))
        .unwrap_or(false)
}

/// the raw DOM view and the merged-text view denote the same XPath data model: no reference, no CDATA section and no
/// two adjacent character-data items anywhere in element content
pub fn views_coincide(d: &ADoc) -> bool {
    use crate::model::adoc::{AElem, ANode};
    fn ok(e: &AElem) -> bool {
        let mut prev_text = false;
        for c in &e.children {
            match c {
                ANode::CharRef(_) | ANode::EntRef(_) | ANode::CData(_) => return false,
                ANode::Text(t) => {
                    if prev_text || t.is_empty() {
                        return false;
                    }
                    prev_text = true;
                }
                ANode::Elem(x) => {
                    if !ok(x) {
                        return false;
                    }
                    prev_text = false;
                }
                _ => prev_text = false,
            }
        }
        true
    }
    ok(&d.root)
}

/// how two node-set dumps differ
pub fn diff_kind(want: &str, got: &str) -> &'static str {
    let parse = |s: &str| -> Option<Vec<String>> {
        let inner = s.strip_prefix("nodes[")?.strip_suffix(']')?;
        if inner.is_empty() {
            return Some(vec![]);
        }
        Some(inner.split(", ").map(|x| x.to_string()).collect())
    };
    match (parse(want), parse(got)) {
        (Some(w), Some(g)) => {
            let mut ws = w.clone();
            let mut gs = g.clone();
            ws.sort();
            gs.sort();
            let mut gd = gs.clone();
            gd.dedup();
            if gd.len() != gs.len() {
                "duplicate-nodes"
            } else if ws == gs {
                "wrong-order"
            } else if gs.iter().all(|x| ws.contains(x)) {
                "missing-nodes"
            } else if ws.iter().all(|x| gs.contains(x)) {
                "extra-nodes"
            } else {
                "different-nodes"
            }
        }
        (Some(_), None) => "scalar-for-node-set",
        (None, Some(_)) => "node-set-for-scalar",
        _ => "wrong-value",
    }
}

impl Space for DocExprs {
    fn len(&self) -> u64 {
        self.docs.len() as u64
    }
    fn describe(&self, idx: u64) -> String {
        format!("document {} x {} expressions", crate::model::adoc::render_canonical(&self.docs[idx as usize]), self.exprs.len())
    }
    fn run(&self, idx: u64, sink: &mut Sink) {
        let fx = match fixture(&self.docs[idx as usize]) {
            Ok(f) => f,
            Err(m) => {
                sink.finding(Finding {
                    sig: format!("fixture/{}", m.split(' ').take(3).collect::<Vec<_>>().join("-")),
                    what: "the document cannot be set up for querying".into(),
                    case: self.describe(idx),
                    expected: "accepted, with the structure the text denotes".into(),
                    observed: m,
                });
                return;
            }
        };
        sink.count("states", 1);
        // "in the raw view wherever the two coincide": the same expressions on the document parsed without merging
        let raw: Option<(xml_dom::XmlDocument, XMap)> = if views_coincide(&self.docs[idx as usize]) {
            match crate::obs::parse_dom(&fx.text, false) {
                (crate::obs::Parsed::Complete, Some(d)) => match XMap::build(&d, &fx.tree) {
                    Ok(m) => Some((d, m)),
                    Err(m) => {
                        sink.finding(Finding {
                            sig: format!("raw-view/fixture/{}", m.split(' ').take(3).collect::<Vec<_>>().join("-")),
                            what: "the raw view of a document without references and CDATA sections differs from the merged-text view".into(),
                            case: self.describe(idx),
                            expected: "the same tree in both views".into(),
                            observed: m,
                        });
                        None
                    }
                },
                _ => None,
            }
        } else {
            None
        };
        if raw.is_some() {
            sink.count("raw-view-documents", 1);
        }
        let abbreviated = Style { abbrev: true, ..Style::default() };
        for (k2, e) in self.exprs.iter().flat_map(|e| [(false, e), (true, e)]).enumerate() {
            let (abbr, e) = e;
            let k = k2 / 2;
            // both the unabbreviated and the abbreviated spelling are evaluated (C08 compares spellings
            // with each other; here each must give the prescribed value)
            let s = if abbr { render(e, &abbreviated) } else { canonical(e) };
            if abbr && s == canonical(e) {
                continue;
            }
            sink.count("transitions", 1);
            let want = ref_outcome(&fx.tree, e, &self.bindings);
            let got = run_query(&fx.doc, &s, &self.bindings, Some((&fx.map, &fx.tree)));
            sink.count("validated", 1);
            if idx == 0 && k % 1500 == 7 {
                sink.sample(|| format!("{}  on  {}  ->  {:?}", s, fx.text, got));
            }
            let ok = match (&want, &got) {
                (Outcome::Val(a), Outcome::Val(b)) => a == b,
                (Outcome::Err(_), Outcome::Err(_)) => true,
                _ => false,
            };
            if let Outcome::Val(v) = &got {
                if v != "nodes[]" {
                    sink.count("nontrivial", 1);
                }
            }
            // the raw view must give the same answer (only reported when the merged view is right, one root cause once)
            if let (true, Some((rd, rm))) = (ok, raw.as_ref()) {
                sink.count("transitions", 1);
                let got_raw = run_query(rd, &s, &self.bindings, Some((rm, &fx.tree)));
                sink.count("validated", 1);
                let same = match (&want, &got_raw) {
                    (Outcome::Val(a), Outcome::Val(b)) => a == b,
                    (Outcome::Err(_), Outcome::Err(_)) => true,
                    _ => false,
                };
                if !same {
                    let kind = match (&want, &got_raw) {
                        (_, Outcome::Panic(m)) => format!("panic[{}]", panic_site(m)),
                        (Outcome::Val(w), Outcome::Val(g)) => diff_kind(w, g).to_string(),
                        _ => "other".to_string(),
                    };
                    let feats = xgen::features(e);
                    let marker = if feats.contains("axis:namespace") && fx.tree.nodes.iter().filter(|n| n.kind == XKind::Elem).count() > 1 {
                        "ns-nodes-of-several-elements/"
                    } else if feats.contains("axis:attribute") && has_defaulted_attribute(&self.docs[idx as usize]) {
                        "dtd-defaulted-attribute-node/"
                    } else {
                        ""
                    };
                    sink.finding(Finding {
                        sig: format!("{}raw-view/{}/{}{}", marker, kind, feats, if abbr { "+abbreviated" } else { "" }),
                        what: format!("query result in the raw view differs from XPath 1.0 and from the merged-text view ({})", kind),
                        case: format!("{}\non {} (raw view)", s, fx.text),
                        expected: format!("{:?}", want),
                        observed: format!("{:?}", got_raw),
                    });
                }
            }
            if ok {
                continue;
            }
            let kind = match (&want, &got) {
                (_, Outcome::Panic(m)) => format!("panic[{}]", panic_site(m)),
                (Outcome::Val(_), Outcome::Err(e)) => format!("unexpected-error[{}]", e.split('(').next().unwrap_or("")),
                (Outcome::Err(_), Outcome::Val(_)) => "unexpected-value".to_string(),
                (Outcome::Val(w), Outcome::Val(g)) => diff_kind(w, g).to_string(),
                _ => "other".to_string(),
            };
            let feats = xgen::features(e);
            // two known structural deviations get their own signature space (see known_findings.txt)
            let marker = if feats.contains("axis:namespace") && fx.tree.nodes.iter().filter(|n| n.kind == XKind::Elem).count() > 1 {
                "ns-nodes-of-several-elements/"
            } else if feats.contains("axis:attribute")
                && has_defaulted_attribute(&self.docs[idx as usize])
                // the known deviation collapses, re-orders or duplicates defaulted attributes; it does not make a
                // selection empty
                && !matches!(&got, Outcome::Val(g) if g == "nodes[]")
            {
                "dtd-defaulted-attribute-node/"
            } else {
                ""
            };
            sink.finding(Finding {
                sig: format!("{}{}/{}{}", marker, kind, feats, if abbr { "+abbreviated" } else { "" }),
                what: format!("query result differs from XPath 1.0 ({})", kind),
                case: format!("{}\non {}", s, fx.text),
                expected: format!("{:?}", want),
                observed: format!("{:?}", got),
            });
        }
    }
}

impl Check for C05C {
    fn id(&self) -> &'static str {
        "C05"
    }
    fn stages(&self, _tier: Tier) -> Vec<String> {
        vec!["eval".into()]
    }
    fn prepare(&self, _stage: &str, tier: Tier, _input: &[String]) -> Box<dyn Space> {
        let quick = tier == Tier::Quick;
        Box::new(DocExprs { docs: xgen::docs(quick), exprs: xgen::expressions(quick), bindings: vec![], prop: "C05" })
    }
    fn case_cap(&self, tier: Tier) -> f64 {
        tier.pick(60.0, 240.0)
    }
    fn meta(&self) -> Meta {
        Meta {
            rule: "documents (10 hand-picked ones with attributes, mixed content, comments, PIs, namespaces, a DTD default, references and CDATA, xml:lang, keyword-named elements, a DOCTYPE between prolog comments and PIs, empty CDATA sections; plus every element skeleton up to the bound, bare and with one decoration) x expressions generated from the reference AST grammar: (A) every axis x 9 node tests x 14 predicate lists evaluated from every element, attribute, text, comment, PI and the root; (B) three-step paths with at most k slots (axis / test / predicate) differing from child::*, also below //; (C) unions, filter expressions (P)[n], (P|Q)[n], (P)[n]/Q and (P)[n]//node(), core functions and all comparison operators over a pool of 25 node-set paths, lang(), name()/string()/number() without argument, nested predicates using position() and last() at two levels. Each expression is rendered from its AST, evaluated by xml_xpath::query on the merged-text DOM (and on the raw DOM of every document in which the two views coincide: no references, CDATA sections or adjacent character data in content) and by the reference evaluator on the XPath data model built from the abstract document; node-sets must contain exactly the expected nodes, each once, in document order (the order among one element's attributes / namespace nodes is left open); scalars compare exactly. One case = one document (all expressions). Non-trivial = a non-empty result.",
            bounds_quick: "10 + 125 documents (skeletons <= 4 elements, bare and with one decoration), k = 1",
            bounds_thorough: "10 + 419 documents (skeletons <= 5 elements, bare and with one decoration), k = 2",
            assumptions: &["trusts mc/src/model/xpath.rs as the reading of XPath 1.0 (DESIGN.md Appendix C)", "no caller namespace bindings here (C10 varies them)"],
            unbounded_total: false,
        }
    }
}
