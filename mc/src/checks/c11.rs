//! C11 — attribute values are normalized and defaulted as XML 1.0 §3.3.3 requires.

use crate::checks::xp::*;
use crate::engine::{guard, panic_site, Check, Finding, Meta, Sink, Space, Tier};
use crate::model::adoc::*;
use crate::obs;
use xml_dom::{Attr, Document, Element, NamedNodeMap, Node};

pub struct C11C;
pub static C11: C11C = C11C;

fn parts_menu() -> Vec<(&'static str, Part)> {
    let t = |s: &str| Part::Text(s.to_string());
    let e = |s: &str| Part::EntRef(s.to_string());
    vec![
        ("a", t("a")),
        ("b", t("b")),
        ("SP", t(" ")),
        ("SPSP", t("  ")),
        ("TAB", t("\t")),
        ("LF", t("\n")),
        ("CR", t("\r")),
        ("CRLF", t("\r\n")),
        ("#32", Part::CharRef(' ')),
        ("#9", Part::CharRef('\t')),
        ("#10", Part::CharRef('\n')),
        ("#13", Part::CharRef('\r')),
        ("#x41", Part::CharRef('A')),
        ("NBSP", t("\u{a0}\u{3000}")),
        ("amp", e("amp")),
        ("lt", e("lt")),
        ("e1", e("e1")),
        ("e2", e("e2")),
        ("e3", e("e3")),
        ("e5", e("e5")),
        ("e6", e("e6")),
    ]
}

fn entity_decls() -> Vec<ADecl> {
    let t = |s: &str| Part::Text(s.to_string());
    vec![
        ADecl::Entity { name: "e1".into(), value: vec![t("v")] },
        ADecl::Entity { name: "e2".into(), value: vec![t("p\tq\nr  s")] },
        ADecl::Entity { name: "e3".into(), value: vec![t("x"), Part::CharRef('\n'), t("y"), Part::CharRef(' '), Part::CharRef(' '), t("z")] },
        ADecl::Entity { name: "e5".into(), value: vec![t("("), Part::EntRef("e2".into()), t(")")] },
        ADecl::Entity { name: "e6".into(), value: vec![t(" v ")] },
    ]
}

const TYPES: &[Option<&str>] = &[None, Some("CDATA"), Some("NMTOKENS"), Some("ID"), Some("NMTOKEN"), Some("(a|b)")];

fn make_doc(value: Vec<Part>, ty: Option<&str>) -> ADoc {
    let mut decls = entity_decls();
    if let Some(t) = ty {
        decls.push(ADecl::AttList { elem: "r".into(), defs: vec![AAttDef { name: "a".into(), ty: t.to_string(), default: ADefault::Implied }] });
    }
    // the same entities are referenced in content too: a value computed for one context must not be
    // reused for the other (the content is read before the attributes in one of the two passes)
    let content = vec![ANode::EntRef("e2".into()), ANode::EntRef("e3".into()), ANode::EntRef("e5".into()), ANode::EntRef("e6".into())];
    let mut d = doc(el("r", vec![atp("a", value)], content));
    d.doctype = Some(ADoctype { name: "r".into(), public: None, system: None, decls, subset: true });
    d
}

/// what the implementation reports for the attributes of the root element
fn observe(text: &str, content_first: bool) -> Result<Vec<(String, String, bool)>, String> {
    // the content-first pass uses the merged-text view, where reading the text expands the entities
    let (p, doc) = obs::parse_dom(text, content_first);
    let doc = match (p, doc) {
        (obs::Parsed::Complete, Some(d)) => d,
        (p, _) => return Err(format!("not accepted: {:?}", p)),
    };
    let r = guard(|| -> Result<Vec<(String, String, bool)>, String> {
        let root = doc.document_element().map_err(|e| format!("{:?}", e))?;
        if content_first {
            let _ = xml_dom::AsStringValue::as_string_value(&root);
            for c in root.child_nodes().iter() {
                let _ = c.node_value();
            }
        }
        let mut v = vec![];
        if let Some(attrs) = root.attributes() {
            for a in attrs.iter() {
                let shown = format!("{}", xml_dom::AsNode::as_node(&a));
                let qn = shown.split('=').next().unwrap_or("").to_string();
                let value = a.value().map_err(|e| format!("value(): {:?}", e))?;
                // the same value through the other access paths
                let via_get = root.get_attribute(&a.name());
                if via_get != value && qn == a.name() {
                    // DOM names are local names (recorded under C13, pinned by tests): with a and p:a on one element,
                    // get_attribute("a") finds whichever comes first
                    let twin = attrs.iter().any(|b| b.name() == a.name() && format!("{}", xml_dom::AsNode::as_node(&b)).split('=').next().unwrap_or("") != qn);
                    if twin {
                        return Err(format!("lookup by local name: get_attribute({:?}) = {:?} but the value of {} is {:?}", a.name(), via_get, qn, value));
                    }
                    return Err(format!("get_attribute({:?}) = {:?} but Attr::value = {:?}", a.name(), via_get, value));
                }
                v.push((qn, value, a.specified()));
            }
            if attrs.length() != v.len() {
                return Err(format!("attributes().length() = {} but {} attributes iterated", attrs.length(), v.len()));
            }
        }
        v.sort();
        Ok(v)
    });
    match r {
        Ok(x) => x,
        Err(p) => Err(format!("PANIC {}", p)),
    }
}

fn expected(d: &ADoc) -> Result<Vec<(String, String, bool)>, String> {
    let dtd = Dtd::new(d);
    let mut v: Vec<(String, String, bool)> = dtd.attributes(&d.root).map_err(|e| format!("{:?}", e))?.into_iter().filter(|a| !is_ns_attr(&a.0)).collect();
    v.sort();
    Ok(v)
}

/// The property speaks of literal CR and LF becoming spaces and does not mention the line-end
/// normalization of XML 1.0 2.11 (CR LF -> LF first): a literal CR LF pair may give one space (2.11
/// then 3.3.3) or two (3.3.3 character by character).  The second reading: every CR LF as two blanks.
fn expected_without_line_end_normalization(d: &ADoc) -> Result<Vec<(String, String, bool)>, String> {
    let mut d2 = d.clone();
    fn widen(parts: &mut [Part]) {
        for p in parts.iter_mut() {
            if let Part::Text(t) = p {
                *t = t.replace("\r\n", "  ");
            }
        }
    }
    for a in d2.root.attrs.iter_mut() {
        widen(&mut a.value);
    }
    expected(&d2)
}

fn compare(d: &ADoc, label: &str, feat: &str, sink: &mut Sink) {
    compare_text(d, render_canonical(d), label, feat, sink);
    // the same document with every character reference (also those inside entity literals) in hexadecimal
    let hex = crate::model::adoc::render_hex_refs(d);
    if hex != render_canonical(d) {
        compare_text(d, hex, label, &format!("{}+hex-references", feat), sink);
    }
}

fn compare_text(d: &ADoc, text: String, label: &str, feat: &str, sink: &mut Sink) {
    sink.count("transitions", 1);
    let want = match expected(d) {
        Ok(w) => w,
        Err(_) => {
            sink.count("outside-model", 1);
            return;
        }
    };
    let got = observe(&text, false);
    // the same after the element content (and so the entities in it) has been read
    let got = match (got, observe(&text, true)) {
        (Ok(a), Ok(b)) if a != b => Err(format!("attributes read first: {:?}; content read first: {:?}", a, b)),
        (a, _) => a,
    };
    sink.count("validated", 1);
    if let Ok(g) = &got {
        if !g.is_empty() {
            sink.count("nontrivial", 1);
        }
    }
    // XPath sees the same value
    let mut xp_problem = None;
    if let (Ok(_), Some(w)) = (&got, want.iter().find(|a| a.0 == "a")) {
        let (_, doc) = obs::parse_dom(&text, true);
        if let Some(doc) = doc {
            let o = run_query(&doc, "string(/r/@a)", &vec![], None);
            let wv = Outcome::Val(format!("string({:?})", w.1));
            let alt_ok = expected_without_line_end_normalization(d)
                .ok()
                .and_then(|v| v.into_iter().find(|a| a.0 == "a"))
                .map(|a| Outcome::Val(format!("string({:?})", a.1)) == o)
                .unwrap_or(false);
            if o != wv && !alt_ok {
                xp_problem = Some((wv, o));
            }
        }
    }
    let alt = expected_without_line_end_normalization(d).ok();
    match got {
        Ok(g) if g == want || Some(&g) == alt.as_ref() => {
            if let Some((w, o)) = xp_problem {
                sink.finding(Finding { sig: format!("xpath-string-value/{}/{}", label, feat), what: "string(@a) differs from the normalized value".into(), case: text, expected: format!("{:?}", w), observed: format!("{:?}", o) });
            }
        }
        Ok(g) => {
            let kind = if g.len() > want.len() {
                "extra-attribute"
            } else if g.len() < want.len() {
                "missing-attribute"
            } else if g.iter().zip(want.iter()).all(|(x, y)| x.0 == y.0 && x.1 == y.1) {
                "specified-flag"
            } else {
                "wrong-value"
            };
            sink.finding(Finding {
                sig: format!("{}/{}/{}", kind, label, feat),
                what: format!("attributes of the root element differ from XML 1.0 3.3.3 ({})", kind),
                case: text,
                expected: format!("{:?}", want),
                observed: format!("{:?}", g),
            });
        }
        Err(m) => {
            let kind = if m.starts_with("PANIC") { format!("panic[{}]", panic_site(&m)) } else if m.starts_with("not accepted") { "rejected".to_string() } else if m.starts_with("attributes read first") { "value-depends-on-read-order".to_string() } else if m.starts_with("lookup by local name") { "lookup-by-local-name".to_string() } else { "inconsistent-accessors".to_string() };
            sink.finding(Finding { sig: format!("{}/{}/{}", kind, label, feat), what: "attribute access fails".into(), case: text, expected: format!("{:?}", want), observed: m });
        }
    }
}

// ---- stage values: all part sequences x declared types

struct Values {
    maxlen: u32,
    n: u64,
}

impl Values {
    fn new(maxlen: u32) -> Values {
        let a = parts_menu().len() as u64;
        let mut n = 1; // the empty value
        let mut p = 1;
        for _ in 0..maxlen {
            p *= a;
            n += p;
        }
        Values { maxlen, n }
    }
    fn seq(&self, idx: u64) -> Vec<usize> {
        if idx == 0 {
            return vec![];
        }
        let mut idx = idx - 1;
        let a = parts_menu().len() as u64;
        let mut len = 1;
        let mut p = a;
        while idx >= p {
            idx -= p;
            p *= a;
            len += 1;
        }
        let mut v = vec![];
        for _ in 0..len {
            v.push((idx % a) as usize);
            idx /= a;
        }
        v.reverse();
        v
    }
}

const CHUNK: u64 = 32;

impl Space for Values {
    fn len(&self) -> u64 {
        (self.n + CHUNK - 1) / CHUNK
    }
    fn describe(&self, idx: u64) -> String {
        let menu = parts_menu();
        format!("attribute value part sequences {}.. (<= {} parts), first: {:?}", idx * CHUNK, self.maxlen, self.seq(idx * CHUNK).iter().map(|i| menu[*i].0).collect::<Vec<_>>())
    }
    fn run(&self, idx: u64, sink: &mut Sink) {
        let menu = parts_menu();
        for k in idx * CHUNK..((idx + 1) * CHUNK).min(self.n) {
            let seq = self.seq(k);
            sink.count("states", 1);
            // adjacent text parts are one text part (the renderer would print them back to back anyway)
            let value: Vec<Part> = seq.iter().map(|i| menu[*i].1.clone()).collect();
            let mut kinds: Vec<&str> = seq
                .iter()
                .map(|i| match menu[*i].0 {
                    "a" | "b" => "text",
                    "SP" | "SPSP" => "space",
                    "TAB" | "LF" | "CR" => "literal-ws",
                    "CRLF" => "literal-crlf",
                    "#32" => "charref-space",
                    "#9" | "#10" | "#13" => "charref-ws",
                    "#x41" => "charref",
                    "NBSP" => "non-xml-space",
                    "amp" | "lt" => "predefined",
                    "e1" => "entity",
                    "e2" | "e5" => "entity-with-ws",
                    "e3" => "entity-with-charref-ws",
                    _ => "entity-padded",
                })
                .collect();
            kinds.sort();
            kinds.dedup();
            let feat = kinds.join("+");
            for ty in TYPES {
                let d = make_doc(value.clone(), *ty);
                if k % 1009 == 3 && ty.is_none() {
                    sink.sample(|| render_canonical(&d));
                }
                compare(&d, &format!("type:{}", ty.unwrap_or("undeclared")), &feat, sink);
            }
        }
    }
}

// ---- stage defaults: default kinds x written / not written x declaration placement

struct Defaults {
    cases: Vec<(String, ADoc)>,
}

fn default_cases() -> Vec<(String, ADoc)> {
    let t = |s: &str| vec![Part::Text(s.to_string())];
    let kinds: Vec<(&str, ADefault)> = vec![
        ("implied", ADefault::Implied),
        ("required", ADefault::Required),
        ("value", ADefault::Value { fixed: false, value: t("v") }),
        ("fixed", ADefault::Value { fixed: true, value: t("v") }),
        ("value-with-blanks", ADefault::Value { fixed: false, value: t(" v\tw  x ") }),
        ("value-with-refs", ADefault::Value { fixed: false, value: vec![Part::Text("a".into()), Part::CharRef('\n'), Part::EntRef("amp".into()), Part::CharRef('B')] }),
        ("value-empty", ADefault::Value { fixed: false, value: vec![] }),
    ];
    let mut v = vec![];
    for (kname, k) in &kinds {
        for ty in ["CDATA", "NMTOKENS", "ID"] {
            for written in [false, true] {
                for placement in ["single", "second-attlist", "repeated-first-wins", "repeated-in-one-attlist", "other-element", "prefixed-name", "two-attributes", "on-child", "same-local-name-other-prefix", "same-local-name-other-prefix-written", "beside-defaulted-nsdecl", "beside-written-and-defaulted-nsdecl"] {
                    let def = |name: &str, dflt: ADefault| AAttDef { name: name.to_string(), ty: ty.to_string(), default: dflt };
                    let aname = if placement == "prefixed-name" { "p:a" } else { "a" };
                    let mut decls: Vec<ADecl> = vec![];
                    match placement {
                        "single" | "prefixed-name" => decls.push(ADecl::AttList { elem: "r".into(), defs: vec![def(aname, k.clone())] }),
                        "second-attlist" => {
                            decls.push(ADecl::AttList { elem: "r".into(), defs: vec![def("z", ADefault::Implied)] });
                            decls.push(ADecl::AttList { elem: "r".into(), defs: vec![def("a", k.clone())] });
                        }
                        "repeated-first-wins" => {
                            decls.push(ADecl::AttList { elem: "r".into(), defs: vec![def("a", k.clone())] });
                            decls.push(ADecl::AttList { elem: "r".into(), defs: vec![def("z", ADefault::Implied)] });
                            decls.push(ADecl::AttList { elem: "r".into(), defs: vec![def("a", ADefault::Value { fixed: false, value: t("late") })] });
                        }
                        "repeated-in-one-attlist" => decls.push(ADecl::AttList {
                            elem: "r".into(),
                            defs: vec![def("a", k.clone()), def("z", ADefault::Implied), def("a", ADefault::Value { fixed: false, value: t("late") })],
                        }),
                        "other-element" => {
                            decls.push(ADecl::AttList { elem: "x".into(), defs: vec![def("a", ADefault::Value { fixed: false, value: t("other") })] });
                            decls.push(ADecl::AttList { elem: "r".into(), defs: vec![def("a", k.clone())] });
                        }
                        // a and p:a are two attributes: the default of one is not displaced by the other
                        "same-local-name-other-prefix" | "same-local-name-other-prefix-written" => {
                            decls.push(ADecl::AttList { elem: "r".into(), defs: vec![def("a", k.clone()), def("p:a", ADefault::Value { fixed: false, value: t("pv") })] })
                        }
                        // a namespace declaration defaulted beside the attribute: it is a declaration, never an attribute,
                        // whether the start tag writes it too or not
                        "beside-defaulted-nsdecl" | "beside-written-and-defaulted-nsdecl" => {
                            decls.push(ADecl::AttList { elem: "r".into(), defs: vec![def("xmlns:p", ADefault::Value { fixed: false, value: t("u") }), def("a", k.clone())] })
                        }
                        "two-attributes" => decls.push(ADecl::AttList { elem: "r".into(), defs: vec![def("a", k.clone()), def("b", ADefault::Value { fixed: false, value: t("bv") })] }),
                        _ => decls.push(ADecl::AttList { elem: "c".into(), defs: vec![def("a", k.clone())] }),
                    }
                    let mut root = el("r", vec![], vec![e("c", vec![], vec![])]);
                    if placement == "prefixed-name" || placement.starts_with("same-local-name") {
                        root.attrs.push(at("xmlns:p", "u"));
                    }
                    if placement == "beside-written-and-defaulted-nsdecl" {
                        root.attrs.push(at("xmlns:p", "u"));
                    }
                    if placement == "same-local-name-other-prefix-written" {
                        root.attrs.push(at("p:a", "pw"));
                    }
                    if written {
                        let target = if placement == "on-child" {
                            match &mut root.children[0] {
                                ANode::Elem(c) => c,
                                _ => unreachable!(),
                            }
                        } else {
                            &mut root
                        };
                        target.attrs.push(at(aname, " w\t x "));
                    }
                    let mut d = doc(root);
                    d.doctype = Some(ADoctype { name: "r".into(), public: None, system: None, decls, subset: true });
                    v.push((format!("default:{}/{}/{}/{}", kname, ty, if written { "written" } else { "absent" }, placement), d));
                }
            }
        }
    }
    v
}

/// compare the attributes of the root AND of its child c
fn compare_defaults(label: &str, d: &ADoc, sink: &mut Sink) {
    // the root through the shared comparison
    compare(d, label, "root", sink);
    // the child element
    let text = render_canonical(d);
    let child = match &d.root.children[0] {
        ANode::Elem(c) => c.clone(),
        _ => return,
    };
    let dtd = Dtd::new(d);
    let mut want: Vec<(String, String, bool)> = match dtd.attributes(&child) {
        Ok(v) => v,
        Err(_) => return,
    };
    want.sort();
    let (p, doc) = obs::parse_dom(&text, false);
    if let (obs::Parsed::Complete, Some(doc)) = (p, doc) {
        let r = guard(|| -> Option<Vec<(String, String, bool)>> {
            let root = doc.document_element().ok()?;
            let c = root.first_child()?;
            let mut v = vec![];
            if let Some(attrs) = c.attributes() {
                for a in attrs.iter() {
                    v.push((a.name(), a.value().unwrap_or_else(|e| format!("<{:?}>", e)), a.specified()));
                }
            }
            v.sort();
            Some(v)
        });
        sink.count("transitions", 1);
        sink.count("validated", 1);
        match r {
            Ok(Some(g)) => {
                if g != want {
                    sink.finding(Finding { sig: format!("child-attributes/{}", label), what: "attributes of the child element differ from XML 1.0 3.3.3".into(), case: text, expected: format!("{:?}", want), observed: format!("{:?}", g) });
                }
            }
            Ok(None) => {}
            Err(m) => sink.finding(Finding { sig: format!("panic[{}]/{}", panic_site(&m), label), what: "panic".into(), case: text, expected: format!("{:?}", want), observed: m }),
        }
    }
}

impl Space for Defaults {
    fn len(&self) -> u64 {
        self.cases.len() as u64
    }
    fn describe(&self, idx: u64) -> String {
        format!("{}: {}", self.cases[idx as usize].0, render_canonical(&self.cases[idx as usize].1))
    }
    fn run(&self, idx: u64, sink: &mut Sink) {
        let (label, d) = &self.cases[idx as usize];
        sink.count("states", 1);
        if idx % 97 == 0 {
            sink.sample(|| render_canonical(d));
        }
        compare_defaults(label, d, sink);
    }
}

impl Check for C11C {
    fn id(&self) -> &'static str {
        "C11"
    }
    fn stages(&self, _tier: Tier) -> Vec<String> {
        vec!["defaults".into(), "values".into()]
    }
    fn prepare(&self, stage: &str, tier: Tier, _input: &[String]) -> Box<dyn Space> {
        if stage == "defaults" {
            return Box::new(Defaults { cases: default_cases() });
        }
        Box::new(Values::new(tier.pick(3, 4)))
    }
    fn case_cap(&self, tier: Tier) -> f64 {
        tier.pick(30.0, 120.0)
    }
    fn meta(&self) -> Meta {
        Meta {
            rule: "stage values: ALL sequences of at most n parts over 21 attribute-value parts (text a / b, one and two spaces, literal TAB, LF, CR, CR LF, character references to space, TAB, LF, CR and A, &amp; &lt;, entities with plain text, with literal TAB/LF/spaces, with a character reference to LF inside, nested, padded with blanks) as the value of attribute a of the root, x declared type {undeclared, CDATA, NMTOKENS, ID, NMTOKEN, enumeration}; expected value by XML 1.0 3.3.3 step by step on the abstract value (mc/src/model/adoc.rs Dtd::normalize_parts; tokenized types collapse blanks). Compared: Attr::value, Attr::specified, Element::get_attribute, attributes().length(), XPath string(/r/@a). Stage defaults: 7 default kinds (#IMPLIED, #REQUIRED, value, #FIXED, value with blanks, value with references, empty value) x 3 types x written / not written x 8 placements (single ATTLIST, second ATTLIST for the element, definition repeated in a later ATTLIST and within one ATTLIST (first binds), ATTLIST for another element first, prefixed attribute name, two attributes, attribute of the child element); attributes of the root and of its child compared. Non-trivial = the element has attributes.",
            bounds_quick: "values: <= 3 parts (9,724 sequences) x 6 types; defaults: 336 documents",
            bounds_thorough: "values: <= 4 parts (204,205 sequences) x 6 types; defaults: 336 documents",
            assumptions: &["entities whose replacement text contains '&' or '<' are outside the attribute-value model", "line-end normalization (XML 1.0 2.11) is applied to literal CR and CR LF before 3.3.3"],
            unbounded_total: false,
        }
    }
}
