//! Shared XPath plumbing for C05–C10, C17, C19: running a query on the implementation, mapping the
//! nodes it returns onto the reference data model, and canonical result dumps.

use crate::engine::guard;
use crate::model::xpath::*;
use crate::obs;
use std::collections::HashMap;
use xml_dom::{AsNode, Node, XmlDocument, XmlNode};

#[derive(Clone, Copy, PartialEq, Eq, Hash, Debug)]
pub enum K {
    Doc,
    Elem,
    Attr,
    Text,
    Comment,
    PI,
    Ns,
    Other,
}

pub fn k_of(n: &XmlNode) -> K {
    match n {
        XmlNode::Document(_) => K::Doc,
        XmlNode::Element(_) => K::Elem,
        XmlNode::Attribute(_) => K::Attr,
        XmlNode::Text(_) | XmlNode::CData(_) | XmlNode::EntityReference(_) | XmlNode::ExpandedText(_) => K::Text,
        XmlNode::Comment(_) => K::Comment,
        XmlNode::PI(_) => K::PI,
        XmlNode::Namespace(_) => K::Ns,
        _ => K::Other,
    }
}

/// implementation node -> index in the reference tree
pub struct XMap {
    pub map: HashMap<(K, usize), usize>,
}

impl XMap {
    /// Parallel walk of the implementation's (merged-text) DOM and the reference tree.
    pub fn build(doc: &XmlDocument, t: &XTree) -> Result<XMap, String> {
        let mut m = XMap { map: HashMap::new() };
        m.walk(&doc.as_node(), 0, t)?;
        Ok(m)
    }

    fn walk(&mut self, n: &XmlNode, i: usize, t: &XTree) -> Result<(), String> {
        self.map.insert((k_of(n), n.id()), i);
        let model = &t.nodes[i];
        if let XmlNode::Element(e) = n {
            if let Some(attrs) = e.attributes() {
                for a in attrs.iter() {
                    let an = a.as_node();
                    let shown = format!("{}", an);
                    let qn = shown.split('=').next().unwrap_or("").trim().to_string();
                    match model.attrs.iter().find(|x| t.qname(**x) == qn) {
                        Some(x) => {
                            self.map.insert((K::Attr, an.id()), *x);
                        }
                        None => return Err(format!("attribute {} of {} has no counterpart in the reference tree", qn, t.describe(i))),
                    }
                }
            }
        }
        if matches!(n, XmlNode::Element(_) | XmlNode::Document(_)) {
            // the DOM keeps the document type declaration and text nodes without characters (an empty CDATA section);
            // neither is a node of the query data model: they get no entry, a query that returns one is reported
            let kids: Vec<XmlNode> = n
                .child_nodes()
                .iter()
                .filter(|c| !matches!(c, XmlNode::DocumentType(_)))
                .filter(|c| !(k_of(c) == K::Text && c.node_value().ok().flatten().unwrap_or_default().is_empty()))
                .collect();
            if kids.len() != model.children.len() {
                return Err(format!(
                    "{} has {} children in the implementation's view, {} in the reference tree",
                    t.describe(i),
                    kids.len(),
                    model.children.len()
                ));
            }
            for (c, mi) in kids.iter().zip(model.children.iter()) {
                let want = match t.nodes[*mi].kind {
                    XKind::Elem => K::Elem,
                    XKind::Text => K::Text,
                    XKind::Comment => K::Comment,
                    XKind::PI => K::PI,
                    _ => K::Other,
                };
                if k_of(c) != want {
                    return Err(format!("child of {}: implementation has {:?}, reference tree has {}", t.describe(i), k_of(c), t.describe(*mi)));
                }
                self.walk(c, *mi, t)?;
            }
        }
        Ok(())
    }

    pub fn token(&self, n: &XmlNode, t: &XTree) -> String {
        if let XmlNode::Namespace(_) = n {
            let p = n.node_name();
            let p = if p == "xmlns" { String::new() } else { p };
            return format!("ns({}={})", p, n.node_value().ok().flatten().unwrap_or_default());
        }
        match self.map.get(&(k_of(n), n.id())) {
            Some(i) => tok(t, *i),
            None => format!("?{:?}#{}", k_of(n), n.id()),
        }
    }
}

/// description of a reference node; namespace nodes without their owner (the implementation's
/// namespace nodes do not know their element)
pub fn tok(t: &XTree, i: usize) -> String {
    let n = &t.nodes[i];
    if n.kind == XKind::Ns {
        format!("ns({}={})", n.local, n.value)
    } else {
        t.describe(i)
    }
}

/// Document order leaves the relative order of one element's attributes, and of its namespace
/// nodes, to the implementation: consecutive attribute tokens of one owner, and consecutive
/// namespace tokens, are sorted before two sequences are compared.
pub fn canon_seq(mut toks: Vec<String>) -> Vec<String> {
    let group = |s: &str| -> Option<String> {
        if s.starts_with("ns(") {
            Some("ns".into())
        } else if s.starts_with('@') {
            s.rsplit_once('#').map(|x| format!("@{}", x.1))
        } else {
            None
        }
    };
    let mut i = 0;
    while i < toks.len() {
        if let Some(g) = group(&toks[i]) {
            let mut j = i + 1;
            while j < toks.len() && group(&toks[j]).as_deref() == Some(g.as_str()) {
                j += 1;
            }
            toks[i..j].sort();
            i = j;
        } else {
            i += 1;
        }
    }
    toks
}

#[derive(Clone, Debug, PartialEq)]
pub enum Outcome {
    Val(String),
    Err(String),
    Panic(String),
}

pub fn num_dump(n: f64) -> String {
    dump(&XTree::default(), &Value::Num(n))
}

/// caller bindings: (prefix or None, uri)
pub type Bindings = Vec<(Option<String>, String)>;

pub fn new_context(b: &Bindings) -> xml_xpath::eval::model::Context {
    let mut c = xml_xpath::eval::model::Context::default();
    for (p, u) in b {
        c.add_ns(p.as_deref(), u);
    }
    c
}

pub fn value_dump(v: &xml_xpath::eval::model::Value, map: Option<(&XMap, &XTree)>) -> String {
    use xml_xpath::eval::model::Value as V;
    match v {
        V::Boolean(b) => format!("boolean({})", b),
        V::Number(n) => num_dump(*n),
        V::Text(s) => format!("string({:?})", s),
        V::Node(ns) => {
            let toks: Vec<String> = match map {
                Some((m, t)) => ns.iter().map(|n| m.token(n, t)).collect(),
                None => ns.iter().map(|n| format!("{:?}#{}", k_of(n), n.id())).collect(),
            };
            format!("nodes[{}]", canon_seq(toks).join(", "))
        }
    }
}

/// run a query with an existing context (C19 shares one)
pub fn run_query_ctx(doc: &XmlDocument, expr: &str, ctx: &mut xml_xpath::eval::model::Context, map: Option<(&XMap, &XTree)>) -> Outcome {
    let r = guard(|| match xml_xpath::query(doc.clone(), expr, ctx) {
        Ok(v) => Outcome::Val(value_dump(&v, map)),
        Err(e) => Outcome::Err(format!("{:?}", e)),
    });
    match r {
        Ok(o) => o,
        Err(m) => Outcome::Panic(m),
    }
}

pub fn run_query(doc: &XmlDocument, expr: &str, b: &Bindings, map: Option<(&XMap, &XTree)>) -> Outcome {
    let mut ctx = new_context(b);
    run_query_ctx(doc, expr, &mut ctx, map)
}

/// the reference's answer in the same format
pub fn ref_outcome(t: &XTree, e: &Expr, b: &Bindings) -> Outcome {
    let env = Env { tree: t, ns: b.clone() };
    match env.eval_root(e) {
        Ok(Value::Nodes(ns)) => Outcome::Val(format!("nodes[{}]", canon_seq(ns.iter().map(|n| tok(t, *n)).collect()).join(", "))),
        Ok(v) => Outcome::Val(dump(t, &v)),
        Err(e) => Outcome::Err(e.0),
    }
}

/// parse a document in the merged-text view and build tree + map
pub struct Fixture {
    pub text: String,
    pub doc: XmlDocument,
    pub tree: XTree,
    pub map: XMap,
}

pub fn fixture(adoc: &crate::model::adoc::ADoc) -> Result<Fixture, String> {
    let text = crate::model::adoc::render_canonical(adoc);
    let tree = XTree::from_adoc(adoc)?;
    let (p, doc) = obs::parse_dom(&text, true);
    let doc = match (p, doc) {
        (obs::Parsed::Complete, Some(d)) => d,
        (p, _) => return Err(format!("document {} is not accepted: {:?}", obs::q(&text), p)),
    };
    let map = XMap::build(&doc, &tree)?;
    Ok(Fixture { text, doc, tree, map })
}

/// class of a scalar argument, for signatures
pub fn arg_class(e: &Expr) -> String {
    match e {
        Expr::Str(s) => {
            let t = s.trim_matches(|c| c == ' ' || c == '\t' || c == '\n' || c == '\r');
            if s.is_empty() {
                "str-empty".into()
            } else if t.is_empty() {
                "str-space".into()
            } else if !string_to_num(s).is_nan() {
                if t.len() != s.len() { "str-padded-number".into() } else { "str-number".into() }
            } else if t.parse::<f64>().is_ok() {
                "str-rust-only-number".into()
            } else if !s.is_ascii() {
                "str-non-ascii".into()
            } else if s.contains(' ') {
                "str-with-space".into()
            } else {
                "str-ascii".into()
            }
        }
        Expr::Num(n) => {
            let v: f64 = n.parse().unwrap_or(f64::NAN);
            if v == 0.0 {
                "num-zero".into()
            } else if v.fract() == 0.0 {
                if v.abs() >= 9007199254740992.0 { "num-huge".into() } else { "num-int".into() }
            } else if (v.abs().fract() - 0.5).abs() < 1e-12 {
                "num-half".into()
            } else if v.abs() < 1e-3 {
                "num-tiny".into()
            } else {
                "num-fraction".into()
            }
        }
        Expr::Neg(a) => format!("neg-{}", arg_class(a)),
        Expr::Bin(Op::Div, a, b) if **b == Expr::Num("0".into()) => match &**a {
            Expr::Num(z) if z == "0" => "num-nan".into(),
            Expr::Neg(_) => "num-neg-inf".into(),
            _ => "num-inf".into(),
        },
        Expr::Bin(..) => "num-expr".into(),
        Expr::Call(f, args) if args.is_empty() => format!("{}()", f),
        Expr::Call(f, _) => format!("{}(..)", f),
        Expr::Path { .. } | Expr::Filter { .. } => "node-set".into(),
        Expr::Var(_) => "var".into(),
    }
}
