use crate::engine::Check;

pub mod c01;
pub mod c02;
pub mod c03;
pub mod c04;
pub mod c18;

pub fn all() -> Vec<&'static dyn Check> {
    vec![&c01::C01, &c02::C02, &c03::C03, &c04::C04, &c18::C18]
}

pub fn lookup(id: &str) -> Option<&'static dyn Check> {
    all().into_iter().find(|c| c.id() == id)
}
