use crate::engine::Check;

pub mod c01;
pub mod c02;
pub mod c03;
pub mod c04;
pub mod c05;
pub mod c06;
pub mod c07;
pub mod c08;
pub mod c09;
pub mod xgen;
pub mod c10;
pub mod c11;
pub mod c12;
pub mod xp;
pub mod c13;
pub mod c14;
pub mod c15;
pub mod c16;
pub mod dombfs;
pub mod c17;
pub mod c18;
pub mod c19;

pub fn all() -> Vec<&'static dyn Check> {
    vec![&c01::C01, &c02::C02, &c03::C03, &c04::C04, &c05::C05, &c06::C06, &c07::C07, &c08::C08, &c09::C09, &c10::C10, &c11::C11, &c12::C12, &c13::C13, &c14::C14, &c15::C15, &c16::C16, &c17::C17, &c18::C18, &c19::C19]
}

pub fn lookup(id: &str) -> Option<&'static dyn Check> {
    all().into_iter().find(|c| c.id() == id)
}
