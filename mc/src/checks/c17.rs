//! C17 — xe rewrites exactly the selected nodes; xq prints exactly the selection.
//! The real binaries (built from /repo/xpath/examples as bins of this crate) are run as processes.

use crate::checks::xgen;
use crate::checks::xp::Bindings;
use crate::engine::{Check, Finding, Meta, Sink, Space, Tier};
use crate::model::adoc::{render_canonical};
use crate::model::wf;
use crate::model::xpath::*;
use std::io::Write;
use std::process::{Command, Stdio};

pub struct C17C;
pub static C17: C17C = C17C;

// ---------------------------------------------------------------------------------------------
// a small owned tree for the expected result

#[derive(Clone, Debug, PartialEq)]
struct T {
    id: usize, // index in the original XTree (usize::MAX for inserted nodes)
    kind: XKind,
    name: String,
    value: String,
    attrs: Vec<T>,
    children: Vec<T>,
}

fn to_t(t: &XTree, i: usize, keep_ids: bool) -> T {
    let n = &t.nodes[i];
    T {
        id: if keep_ids { i } else { usize::MAX },
        kind: n.kind,
        name: t.qname(i),
        value: n.value.clone(),
        attrs: n.attrs.iter().map(|a| to_t(t, *a, keep_ids)).collect(),
        children: n.children.iter().map(|c| to_t(t, *c, keep_ids)).collect(),
    }
}

fn dump_t(n: &T, out: &mut String) {
    match n.kind {
        XKind::Root => {
            out.push_str("doc(");
            for c in &n.children {
                dump_t(c, out);
            }
            out.push(')');
        }
        XKind::Elem => {
            out.push_str(&format!("<{}", n.name));
            let mut a: Vec<String> = n.attrs.iter().map(|a| format!(" {}={:?}", a.name, a.value)).collect();
            a.sort();
            out.push_str(&a.concat());
            out.push('>');
            // adjacent text nodes are one text node once printed
            let mut run = String::new();
            for c in &n.children {
                if c.kind == XKind::Text {
                    run.push_str(&c.value);
                } else {
                    if !run.is_empty() {
                        out.push_str(&format!("text({:?})", run));
                        run.clear();
                    }
                    dump_t(c, out);
                }
            }
            if !run.is_empty() {
                out.push_str(&format!("text({:?})", run));
            }
            out.push_str(&format!("</{}>", n.name));
        }
        XKind::Text => out.push_str(&format!("text({:?})", n.value)),
        XKind::Comment => out.push_str(&format!("comment({:?})", n.value)),
        XKind::PI => out.push_str(&format!("pi({},{:?})", n.name, n.value)),
        XKind::Attr => out.push_str(&format!("@{}={:?}", n.name, n.value)),
        XKind::Ns => {}
    }
}

fn find_mut(n: &mut T, id: usize) -> Option<&mut T> {
    if n.id == id {
        return Some(n);
    }
    for a in n.attrs.iter_mut() {
        if a.id == id {
            return Some(a);
        }
    }
    for c in n.children.iter_mut() {
        if let Some(x) = find_mut(c, id) {
            return Some(x);
        }
    }
    None
}

/// the value argument parsed as the content of an element; None if it is not well-formed content
fn parse_value(v: &str) -> Option<Vec<T>> {
    match wf::recognise(&format!("<e>{}</e>", v)) {
        wf::Verdict::WellFormed(d) => {
            let t = XTree::from_adoc(&d).ok()?;
            let root_elem = t.nodes[0].children[0];
            Some(t.nodes[root_elem].children.iter().map(|c| to_t(&t, *c, false)).collect())
        }
        _ => None,
    }
}

#[derive(Debug, PartialEq)]
enum Expected {
    /// compact output must parse back to this dump
    Doc(String),
    /// the input is unusable: non-zero exit and a message
    Refuse(&'static str),
}

fn expected_xe(text: &str, path: &Expr, bindings: &Bindings, value: &str) -> Expected {
    let d = match wf::recognise(text) {
        wf::Verdict::WellFormed(d) => d,
        _ => return Expected::Refuse("document"),
    };
    let tree = match XTree::from_adoc(&d) {
        Ok(t) => t,
        Err(_) => return Expected::Refuse("document"),
    };
    let new_children = match parse_value(value) {
        Some(c) => c,
        None => return Expected::Refuse("value"),
    };
    let env = Env { tree: &tree, ns: bindings.clone() };
    let selected = match env.eval_root(path) {
        Ok(Value::Nodes(ns)) => ns,
        Ok(_) => return Expected::Refuse("not-a-node-set"),
        Err(_) => return Expected::Refuse("expression"),
    };
    if selected.iter().any(|i| !matches!(tree.nodes[*i].kind, XKind::Root | XKind::Elem | XKind::Attr)) {
        return Expected::Refuse("selected-node-kind");
    }
    let mut root = to_t(&tree, 0, true);
    for id in selected {
        let kind = tree.nodes[id].kind;
        let target = match find_mut(&mut root, id) {
            Some(t) => t,
            None => continue, // removed together with a selected ancestor
        };
        match kind {
            XKind::Attr => {
                // (a CDATA section cannot be a child of an attribute either: the data model has merged it
                // into text, the tool sees the section)
                if new_children.iter().any(|c| c.kind != XKind::Text) || value.contains("<![CDATA[") {
                    return Expected::Refuse("markup-in-attribute-value");
                }
                target.value = new_children.iter().map(|c| c.value.clone()).collect();
            }
            XKind::Root => {
                let elems = new_children.iter().filter(|c| c.kind == XKind::Elem).count();
                if elems != 1 || new_children.iter().any(|c| c.kind == XKind::Text) {
                    return Expected::Refuse("document-content");
                }
                target.children = new_children.clone();
            }
            _ => target.children = new_children.clone(),
        }
    }
    let mut s = String::new();
    dump_t(&root, &mut s);
    Expected::Doc(s)
}

fn dump_text(text: &str) -> Result<String, String> {
    match wf::recognise(text.trim_end_matches('\n')) {
        wf::Verdict::WellFormed(d) => {
            let t = XTree::from_adoc(&d).map_err(|e| format!("reference data model: {}", e))?;
            let mut s = String::new();
            dump_t(&to_t(&t, 0, false), &mut s);
            Ok(s)
        }
        wf::Verdict::IllFormed(e) => Err(format!("not well-formed: {} at {} ({})", e.site, e.pos, e.msg)),
        wf::Verdict::Undecided(w) => Err(format!("undecided: {}", w)),
    }
}

// ---------------------------------------------------------------------------------------------
// running the tools

pub struct Run {
    pub code: Option<i32>,
    pub signal: Option<i32>,
    pub stdout: String,
    pub stderr: String,
}

pub fn run_tool(tool: &str, args: &[String], stdin: &str) -> Result<Run, String> {
    let exe = std::env::current_exe().map_err(|e| e.to_string())?;
    let bin = exe.parent().ok_or("no parent")?.join(tool);
    let mut child = Command::new(&bin).args(args).stdin(Stdio::piped()).stdout(Stdio::piped()).stderr(Stdio::piped()).spawn().map_err(|e| format!("cannot start {:?}: {}", bin, e))?;
    {
        let mut si = child.stdin.take().ok_or("no stdin")?;
        let _ = si.write_all(stdin.as_bytes());
    }
    let out = child.wait_with_output().map_err(|e| e.to_string())?;
    use std::os::unix::process::ExitStatusExt;
    Ok(Run { code: out.status.code(), signal: out.status.signal(), stdout: String::from_utf8_lossy(&out.stdout).to_string(), stderr: String::from_utf8_lossy(&out.stderr).to_string() })
}

// ---------------------------------------------------------------------------------------------
// factors

fn doc_texts() -> Vec<String> {
    let d = xgen::rich_docs();
    let mut v: Vec<String> = vec![
        render_canonical(&d[0]),
        render_canonical(&d[2]),
        render_canonical(&d[1]),
        render_canonical(&d[3]),
        render_canonical(&d[4]),
        render_canonical(&d[7]),
        "<r/>".to_string(),
        "<r>only text</r>".to_string(),
        "<!DOCTYPE r [<!ATTLIST a d CDATA \"dv\">]><r><a/><a d=\"w\"/></r>".to_string(),
        "<?xml version=\"1.0\"?><!--pre--><r x=\"1\"><a x=\"2\">t<b/>u</a><!--in--></r><!--post-->".to_string(),
    ];
    v.push("<r><a>1</a><a>2<a>3</a></a><b x=\"it's\" y='say \"hi\"'/></r>".to_string());
    v.push("<!--pre--><?pp?><!DOCTYPE r><!--mid--><r><c/><!--in--><c x=\"1\"/></r><!--post-->".to_string());
    v.push("<r><a>x&amp;y</a><a>1<![CDATA[2]]></a><a>p<!--c-->q</a><a>&#65;B</a></r>".to_string());
    // one DTD default received by two elements (the defaulted attributes are distinct nodes with equal name and value)
    v.push("<!DOCTYPE r [<!ATTLIST a d CDATA \"dv\">]><r><a x=\"1\">one</a><a x=\"2\">two</a><a d=\"w\" x=\"3\"/></r>".to_string());
    v
}

fn path_exprs() -> Vec<(Expr, &'static str)> {
    let c = |n: &str| step(Axis::Child, name(n));
    vec![
        (path(true, vec![c("r"), c("a")]), "elements"),
        (path(true, vec![c("r")]), "root-element"),
        (path(true, vec![dslash(), c("a")]), "nested-elements"),
        (path(true, vec![dslash(), c("b")]), "elements"),
        (path(true, vec![c("r"), stepp(Axis::Child, name("a"), vec![num("1")])]), "one-element"),
        (path(true, vec![dslash(), c("a"), step(Axis::Attribute, name("x"))]), "attributes"),
        (path(true, vec![dslash(), step(Axis::Attribute, name("x"))]), "attributes"),
        (path(true, vec![dslash(), step(Axis::Attribute, NodeTest::Any)]), "attributes"),
        (path(true, vec![]), "document"),
        (path(true, vec![dslash(), c("none")]), "empty"),
        (call("count", vec![path(true, vec![dslash(), c("a")])]), "number"),
        (path(true, vec![dslash(), step(Axis::Child, NodeTest::Text)]), "text-nodes"),
        (path(true, vec![dslash(), step(Axis::Child, NodeTest::Comment)]), "comment-nodes"),
        (lit("x"), "string"),
        (bin(Op::Eq, num("1"), num("1")), "boolean"),
        (bin(Op::Union, path(true, vec![dslash(), c("a")]), path(true, vec![dslash(), c("b")])), "union"),
        (filter(path(true, vec![dslash(), c("a")]), vec![call("last", vec![])], vec![]), "one-element"),
        (path(true, vec![dslash(), stepp(Axis::Child, NodeTest::Any, vec![path(false, vec![step(Axis::Attribute, name("x"))])])]), "elements"),
        (path(true, vec![c("r"), step(Axis::Child, NodeTest::Any)]), "elements"),
        (path(true, vec![dslash(), c("p:a")]), "prefixed"),
        (path(true, vec![dslash(), step(Axis::Child, NodeTest::NsAny("p".into()))]), "prefixed"),
        (path(true, vec![dslash(), stepp(Axis::Child, NodeTest::Any, vec![bin(Op::And, path(false, vec![stepp(Axis::Child, NodeTest::Any, vec![path(false, vec![step(Axis::Attribute, NodeTest::Any)])])]), bin(Op::Eq, call("position", vec![]), num("2")))])]), "nested-predicate"),
        // elements chosen by a predicate on an attribute that looks back at its element
        (path(true, vec![dslash(), stepp(Axis::Child, name("a"), vec![path(false, vec![stepp(Axis::Attribute, name("d"), vec![bin(Op::Eq, path(false, vec![step(Axis::Parent, NodeTest::Node), step(Axis::Attribute, name("x"))]), lit("2"))])])])]), "elements"),
        (Expr::Var("v".into()), "variable"),
        (bin(Op::Div, num("1"), num("0")), "number"),
        (bin(Op::Div, num("0"), num("0")), "number"),
        (path(true, vec![dslash(), step(Axis::Child, NodeTest::PI(None))]), "pi-nodes"),
        // selections that depend on text nodes, node counts and string-values (the merged-text view)
        (path(true, vec![dslash(), stepp(Axis::Child, NodeTest::Any, vec![bin(Op::Eq, path(false, vec![step(Axis::SelfAxis, NodeTest::Node)]), lit("xent<y>A2"))])]), "by-string-value"),
        (path(true, vec![dslash(), stepp(Axis::Child, NodeTest::Any, vec![bin(Op::Eq, call("count", vec![path(false, vec![step(Axis::Child, NodeTest::Node)])]), num("3"))])]), "by-node-count"),
        (path(true, vec![dslash(), stepp(Axis::Child, NodeTest::Any, vec![bin(Op::Eq, path(false, vec![step(Axis::Child, NodeTest::Text)]), lit("xent<y>A"))])]), "by-text-node"),
        (path(true, vec![dslash(), stepp(Axis::Child, NodeTest::Any, vec![path(false, vec![stepp(Axis::Child, NodeTest::Node, vec![num("2")]), step(Axis::SelfAxis, NodeTest::Text)])])]), "by-node-position"),
        (path(true, vec![dslash(), stepp(Axis::Child, NodeTest::Any, vec![call("contains", vec![path(false, vec![step(Axis::SelfAxis, NodeTest::Node)]), lit("&")])])]), "by-string-value"),
        // axes that cross the DOCTYPE at the top level
        (path(true, vec![dslash(), stepp(Axis::Child, name("c"), vec![path(false, vec![step(Axis::Preceding, NodeTest::PI(Some("pp".into())))])])]), "across-doctype"),
        (path(true, vec![step(Axis::Child, name("r")), step(Axis::PrecedingSibling, NodeTest::Node), step(Axis::FollowingSibling, NodeTest::Any)]), "across-doctype"),
        (path(true, vec![stepp(Axis::Child, NodeTest::Comment, vec![num("1")]), step(Axis::FollowingSibling, NodeTest::Any)]), "across-doctype"),
    ]
}

const VALUES: &[(&str, &str)] = &[
    ("t", "text"),
    ("", "empty"),
    ("t &amp; u &lt; v", "text-with-references"),
    ("&#65;&#x42;", "char-references"),
    ("<n/>", "element"),
    ("<n k=\"1\" j='2'>w</n>", "element-with-attributes"),
    ("<n><m>deep</m><m/></n>tail", "nested-elements"),
    ("x<n/>y<n/>", "mixed"),
    ("<![CDATA[<c> & ]]>", "cdata"),
    ("<!--c-->", "comment"),
    ("<?pi d?>", "pi"),
    ("<p:n xmlns:p=\"v\" p:k=\"1\"/>", "prefixed-element"),
    ("<n", "ill-formed"),
    ("a < b", "ill-formed"),
    ("a & b", "ill-formed"),
    ("it's \"q\"", "both-quotes"),
    ("say \"hi\"", "double-quote"),
    ("</e><e>", "ill-formed-injection"),
    ("1", "number-text"),
    // values whose references must survive being written and read back
    ("<c x=\"a&amp;b\" y=\"&amp;lt;\" z=\"q&#10;r\"/>", "element-attribute-references"),
    ("]]&#62;", "cdend-by-reference"),
    ("a&#10;b&#9;c", "whitespace-references"),
    ("x]]&gt;y", "cdend-by-entity"),
];

const SETNS: &[(&str, &[&str])] = &[("none", &[]), ("p=v", &["--setns", "xmlns:p=v"]), ("default=u", &["--setns", "xmlns=u"]), ("bad-setns", &["--setns", "p=v"])];

fn bindings_of(ns: &str) -> Bindings {
    match ns {
        "p=v" => vec![(Some("p".into()), "v".into())],
        "default=u" => vec![(None, "u".into())],
        _ => vec![],
    }
}

#[derive(Clone)]
struct Case {
    tool: &'static str,
    doc: usize,
    path: usize,
    value: usize,
    ns: usize,
    indent: bool,
    raw_expr: Option<&'static str>,
}

struct Cli {
    docs: Vec<String>,
    paths: Vec<(Expr, &'static str)>,
    cases: Vec<Case>,
}

fn enumerate(full: bool) -> Vec<Case> {
    let (nd, np, nv) = (doc_texts().len(), path_exprs().len(), VALUES.len());
    let mut v = vec![];
    // deviation-bounded product: at most `k` of the five factors differ from their default (index 0)
    let k = if full { 5 } else { 2 };
    for d in 0..nd {
        for p in 0..np {
            for val in 0..nv {
                for ns in 0..SETNS.len() {
                    for indent in [false, true] {
                        let dev = (d != 0) as usize + (p != 0) as usize + (val != 0) as usize + (ns != 0) as usize + indent as usize;
                        if dev <= k {
                            v.push(Case { tool: "xe", doc: d, path: p, value: val, ns, indent, raw_expr: None });
                        }
                    }
                }
            }
            for ns in 0..SETNS.len() {
                for indent in [false, true] {
                    let dev = (d != 0) as usize + (p != 0) as usize + (ns != 0) as usize + indent as usize;
                    if dev <= k + 1 {
                        v.push(Case { tool: "xq", doc: d, path: p, value: 0, ns, indent, raw_expr: None });
                    }
                }
            }
        }
    }
    // unusable input for both tools
    for tool in ["xe", "xq"] {
        for e in ["//a[", "", ")", "foo()", "//q:a", "count(", "//a[foo()]", "1 +", "$v", "//*[$v]"] {
            v.push(Case { tool, doc: 0, path: 0, value: 0, ns: 0, indent: false, raw_expr: Some(e) });
        }
    }
    v
}

const BAD_DOCS: &[&str] = &["", "<r>", "<r></s>", "not xml", "<r/><r/>", "<r a='1' a='2'/>", "<r>&undeclared;</r>", "\u{feff}<r/>", "<r/>trailing"];

fn report(sink: &mut Sink, sig: String, what: &str, case: String, exp: String, obsd: String) {
    sink.finding(Finding { sig, what: what.to_string(), case, expected: exp, observed: obsd });
}

fn crashed(r: &Run) -> Option<String> {
    if let Some(s) = r.signal {
        return Some(format!("killed by signal {}", s));
    }
    if r.stderr.contains("panicked at") || r.code == Some(101) {
        return Some(format!("panic: {}", r.stderr.lines().take(3).collect::<Vec<_>>().join(" | ")));
    }
    None
}

impl Space for Cli {
    fn len(&self) -> u64 {
        self.cases.len() as u64 + BAD_DOCS.len() as u64 * 2
    }
    fn describe(&self, idx: u64) -> String {
        if (idx as usize) < self.cases.len() {
            let c = &self.cases[idx as usize];
            format!("{} --xpath {:?} --value {:?} {:?} {} on {}", c.tool, c.raw_expr.map(|s| s.to_string()).unwrap_or_else(|| crate::model::xpath::render(&self.paths[c.path].0, &Style { abbrev: true, ..Style::default() })), VALUES[c.value].0, SETNS[c.ns].1, if c.indent { "" } else { "--no-indent" }, self.docs[c.doc])
        } else {
            format!("unusable document {:?}", BAD_DOCS[(idx as usize - self.cases.len()) / 2])
        }
    }
    fn run(&self, idx: u64, sink: &mut Sink) {
        sink.count("states", 1);
        sink.count("transitions", 1);
        if idx % 499 == 1 {
            sink.sample(|| self.describe(idx));
        }
        if idx as usize >= self.cases.len() {
            // ill-formed documents: both tools must refuse
            let k = idx as usize - self.cases.len();
            let tool = if k % 2 == 0 { "xe" } else { "xq" };
            let doc = BAD_DOCS[k / 2];
            let mut args = vec!["--xpath".to_string(), "/".to_string(), "--no-indent".to_string()];
            if tool == "xe" {
                args.extend(["--value".to_string(), "t".to_string()]);
            }
            match run_tool(tool, &args, doc) {
                Ok(r) => {
                    sink.count("validated", 1);
                    if let Some(c) = crashed(&r) {
                        report(sink, format!("{}-crash/bad-document", tool), "the tool crashed", self.describe(idx), "an error message and a non-zero status".into(), c);
                    } else if r.code == Some(0) {
                        report(sink, format!("{}-accepts-unusable-input/bad-document", tool), "an ill-formed document was processed", self.describe(idx), "non-zero status".into(), format!("exit 0, stdout {:?}", r.stdout));
                    } else if r.stderr.trim().is_empty() {
                        report(sink, format!("{}-silent-failure/bad-document", tool), "no error message", self.describe(idx), "a message on stderr".into(), format!("exit {:?}", r.code));
                    }
                }
                Err(e) => report(sink, "machinery/cannot-run".into(), "cannot run the tool", self.describe(idx), "runs".into(), e),
            }
            return;
        }
        let c = &self.cases[idx as usize];
        let (pexpr, pkind) = &self.paths[c.path];
        let abbreviated = Style { abbrev: true, ..Style::default() };
        let expr_text = c.raw_expr.map(|s| s.to_string()).unwrap_or_else(|| crate::model::xpath::render(pexpr, &abbreviated));
        let text = &self.docs[c.doc];
        let (nsname, nsargs) = SETNS[c.ns];
        let mut args: Vec<String> = vec!["--xpath".into(), expr_text.clone()];
        args.extend(nsargs.iter().map(|s| s.to_string()));
        if !c.indent {
            args.push("--no-indent".into());
        }
        let defaulted = text.contains("<!ATTLIST") && matches!(*pkind, "attributes");
        let feat = format!("{}value:{}/path:{}/ns:{}/{}", if defaulted { "dtd-defaulted-attribute/" } else { "" }, VALUES[c.value].1, if c.raw_expr.is_some() { "unusable-expression" } else { pkind }, nsname, if c.indent { "pretty" } else { "compact" });
        let b = bindings_of(nsname);
        if c.tool == "xe" {
            args.extend(["--value".to_string(), VALUES[c.value].0.to_string()]);
            let want = if nsname == "bad-setns" || c.raw_expr.is_some() { Expected::Refuse("arguments") } else { expected_xe(text, pexpr, &b, VALUES[c.value].0) };
            let r = match run_tool("xe", &args, text) {
                Ok(r) => r,
                Err(e) => {
                    report(sink, "machinery/cannot-run".into(), "cannot run xe", self.describe(idx), "runs".into(), e);
                    return;
                }
            };
            sink.count("validated", 1);
            if let Some(cr) = crashed(&r) {
                report(sink, format!("xe-crash/{}", feat), "xe crashed", self.describe(idx), "a result or an error message".into(), cr);
                return;
            }
            match want {
                Expected::Refuse(why) => {
                    if r.code == Some(0) {
                        report(sink, format!("xe-accepts-unusable-input/{}/{}", why, feat), "xe processed unusable input", self.describe(idx), format!("an error message and a non-zero status ({})", why), format!("exit 0, stdout {:?}", r.stdout));
                    } else if r.stderr.trim().is_empty() {
                        report(sink, format!("xe-silent-failure/{}", feat), "no error message", self.describe(idx), "a message on stderr".into(), format!("exit {:?}", r.code));
                    }
                }
                Expected::Doc(want) => {
                    sink.count("nontrivial", 1);
                    if r.code != Some(0) {
                        report(sink, format!("xe-refuses/{}", feat), "xe refused usable input", self.describe(idx), want, format!("exit {:?}: {}", r.code, r.stderr.trim()));
                    } else if !c.indent {
                        match dump_text(&r.stdout) {
                            Ok(got) => {
                                if got != want {
                                    report(sink, format!("xe-wrong-result/{}", feat), "the compact output of xe denotes another document", self.describe(idx), want, format!("{}\n(stdout: {:?})", got, r.stdout));
                                }
                            }
                            Err(e) => report(sink, format!("xe-output-not-well-formed/{}", feat), "the compact output of xe is not well-formed", self.describe(idx), want, format!("{} (stdout: {:?})", e, r.stdout)),
                        }
                    }
                }
            }
        } else {
            // xq
            let r = match run_tool("xq", &args, text) {
                Ok(r) => r,
                Err(e) => {
                    report(sink, "machinery/cannot-run".into(), "cannot run xq", self.describe(idx), "runs".into(), e);
                    return;
                }
            };
            sink.count("validated", 1);
            if let Some(cr) = crashed(&r) {
                report(sink, format!("xq-crash/{}", feat), "xq crashed", self.describe(idx), "a result or an error message".into(), cr);
                return;
            }
            let d = match wf::recognise(text) {
                wf::Verdict::WellFormed(d) => d,
                _ => return,
            };
            let tree = match XTree::from_adoc(&d) {
                Ok(t) => t,
                Err(_) => return,
            };
            let env = Env { tree: &tree, ns: b.clone() };
            let want = if nsname == "bad-setns" || c.raw_expr.is_some() { Err(EvalErr("arguments".into())) } else { env.eval_root(pexpr) };
            match want {
                Err(_) => {
                    if r.code == Some(0) {
                        report(sink, format!("xq-accepts-unusable-input/{}", feat), "xq answered an unusable query", self.describe(idx), "an error message and a non-zero status".into(), format!("exit 0, stdout {:?}", r.stdout));
                    } else if r.stderr.trim().is_empty() {
                        report(sink, format!("xq-silent-failure/{}", feat), "no error message", self.describe(idx), "a message on stderr".into(), format!("exit {:?}", r.code));
                    }
                }
                Ok(v) => {
                    sink.count("nontrivial", 1);
                    if r.code != Some(0) {
                        report(sink, format!("xq-refuses/{}", feat), "xq refused a usable query", self.describe(idx), dump(&tree, &v), format!("exit {:?}: {}", r.code, r.stderr.trim()));
                        return;
                    }
                    if c.indent {
                        return; // only the compact form is specified
                    }
                    let out = r.stdout.strip_suffix('\n').unwrap_or(&r.stdout).to_string();
                    match v {
                        Value::Bool(bv) => {
                            if out != bv.to_string() {
                                report(sink, format!("xq-wrong-scalar/{}", feat), "wrong boolean", self.describe(idx), bv.to_string(), out);
                            }
                        }
                        Value::Str(sv) => {
                            if out != sv {
                                report(sink, format!("xq-wrong-scalar/{}", feat), "wrong string", self.describe(idx), sv, out);
                            }
                        }
                        Value::Num(n) => {
                            // Rust's and XPath's spelling of non-finite numbers are both accepted
                            let ok = out == num_to_string(n) || out == format!("{}", n) || (n.is_infinite() && (out == "inf" || out == "-inf"));
                            if !ok {
                                report(sink, format!("xq-wrong-scalar/{}", feat), "wrong number", self.describe(idx), num_to_string(n), out);
                            }
                        }
                        Value::Nodes(ns) => {
                            // one line per selected node, in document order
                            let lines: Vec<&str> = if out.is_empty() && ns.is_empty() { vec![] } else { out.split('\n').collect() };
                            let has_dtd = d.doctype.is_some();
                            let mut want_lines: Vec<String> = vec![];
                            for i in &ns {
                                let n = &tree.nodes[*i];
                                want_lines.push(match n.kind {
                                    XKind::Elem | XKind::Root => {
                                        let mut s = String::new();
                                        dump_t(&to_t(&tree, *i, false), &mut s);
                                        s
                                    }
                                    XKind::Attr => format!("@{}={:?}", tree.qname(*i), n.value),
                                    XKind::Text => format!("text({:?})", n.value),
                                    XKind::Comment => format!("comment({:?})", n.value),
                                    XKind::PI => format!("pi({},{:?})", n.local, n.value),
                                    XKind::Ns => "ns".into(),
                                });
                            }
                            if lines.len() != want_lines.len() {
                                report(sink, format!("xq-wrong-line-count/{}", feat), "xq printed a different number of nodes", self.describe(idx), format!("{} lines: {:?}", want_lines.len(), want_lines), format!("{} lines: {:?}", lines.len(), lines));
                                return;
                            }
                            for ((line, want), i) in lines.iter().zip(want_lines.iter()).zip(ns.iter()) {
                                let kind = tree.nodes[*i].kind;
                                let got = match kind {
                                    // the serialization of an element does not repeat attributes defaulted from the DTD
                                    XKind::Elem if text.contains("<!ATTLIST") => want.clone(),
                                    XKind::Elem => match wf::recognise(line) {
                                        wf::Verdict::WellFormed(ld) => match XTree::from_adoc(&ld) {
                                            Ok(lt) => {
                                                let mut s = String::new();
                                                dump_t(&to_t(&lt, lt.nodes[0].children[0], false), &mut s);
                                                s
                                            }
                                            // a line using a prefix declared on an ancestor is not a document by itself
                                            Err(_) => want.clone(),
                                        },
                                        _ => format!("<not well-formed: {}>", line),
                                    },
                                    XKind::Root => match dump_text(line) {
                                        Ok(s) => s,
                                        Err(e) => format!("<{}>", e),
                                    },
                                    XKind::Attr => match line.split_once('=') {
                                        Some((n, v)) if v.len() >= 2 => {
                                            let inner = &v[1..v.len() - 1];
                                            let unesc = inner.replace("&quot;", "\"").replace("&apos;", "'").replace("&lt;", "<").replace("&gt;", ">").replace("&amp;", "&");
                                            format!("@{}={:?}", n, unesc)
                                        }
                                        _ => format!("<not an attribute: {}>", line),
                                    },
                                    // any spelling of the characters is a serialization of the text node: references and
                                    // CDATA sections are read back with the reference parser
                                    XKind::Text if !has_dtd => match wf::recognise(&format!("<w>{}</w>", line)) {
                                        wf::Verdict::WellFormed(ld) => match XTree::from_adoc(&ld) {
                                            Ok(lt) => format!("text({:?})", lt.string_value(lt.nodes[0].children[0])),
                                            Err(e) => format!("<{}>", e),
                                        },
                                        _ => format!("<not character data: {}>", line),
                                    },
                                    XKind::Comment => format!("comment({:?})", line.strip_prefix("<!--").and_then(|x| x.strip_suffix("-->")).unwrap_or(line)),
                                    _ => want.clone(),
                                };
                                if got != *want {
                                    report(sink, format!("xq-wrong-node/{:?}/{}", kind, feat), "xq printed something else than the selected node", self.describe(idx), format!("{:?}", want_lines), format!("{:?}", lines));
                                    break;
                                }
                            }
                        }
                    }
                }
            }
        }
    }
}

impl Check for C17C {
    fn id(&self) -> &'static str {
        "C17"
    }
    fn stages(&self, _tier: Tier) -> Vec<String> {
        vec!["cli".into()]
    }
    fn prepare(&self, _stage: &str, tier: Tier, _input: &[String]) -> Box<dyn Space> {
        Box::new(Cli { docs: doc_texts(), paths: path_exprs(), cases: enumerate(tier == Tier::Thorough) })
    }
    fn case_cap(&self, tier: Tier) -> f64 {
        tier.pick(20.0, 60.0)
    }
    fn meta(&self) -> Meta {
        Meta {
            rule: "the real xe and xq binaries (compiled from /repo/xpath/examples as bins of the harness crate) run as processes: stdin document, arguments from the product of 13 documents (attributes, nested same-named elements, comments/PIs, namespaces, DTD default + references + CDATA, XML declaration, values with quotes) x 34 selecting paths (selections by string-value / text node / node count, axes across the DOCTYPE, elements, nested selections, one element, attributes, the document node, empty selection, scalars, text / comment / PI nodes, unions, filters, prefixed names, nested predicates, a variable) x 23 replacement values (empty, text, references, elements with attributes / nesting / prefixes, mixed, CDATA, comment, PI, ill-formed, quote characters) x {--no-indent, pretty} x {no --setns, prefix, default, malformed}; plus unusable expressions and ill-formed documents for both tools. Oracle: reference parser -> reference XPath selection -> children of exactly the selected element / attribute / document nodes replaced by the parsed value -> expected document; xe's compact stdout is parsed back WITH THE REFERENCE PARSER and must denote it; xq's compact stdout must be one serialization per selected node in document order (elements parsed back and compared as trees), or the scalar. Unusable input (ill-formed document or value, bad expression, non-node result or unsupported node kind for xe): non-zero exit, a message on stderr, no panic, no signal. Non-trivial = the reference expects a result (not a refusal).",
            bounds_quick: "every combination in which at most 2 of the 5 factors (document, path, value, --setns, indentation) differ from their default value; xq: at most 3 of 4",
            bounds_thorough: "the full product",
            assumptions: &["pretty-printed output is only checked for exit status and absence of a crash (the statement constrains the compact output)", "number results: Rust's or XPath's spelling of NaN and the infinities are both accepted"],
            unbounded_total: false,
        }
    }
}
