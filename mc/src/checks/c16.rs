//! C16 — character-data operations work on character offsets with DOM Level 1 semantics.

use crate::checks::c12::stages_for;
use crate::checks::dombfs::*;
use crate::engine::{guard, panic_site, Check, Finding, Meta, Sink, Space, Tier};
use crate::obs;
use xml_dom::{CharacterData, Document, Node, XmlNode};

pub struct C16C;
pub static C16: C16C = C16C;

/// content strings: ASCII, Latin-1 (2-byte), astral (4-byte), combining mark, CJK (3-byte)
pub const CONTENTS: &[&str] = &["a😀b", "e\u{301}x", "héllo", "abc", "日本語", "a"];
pub const ARGS: &[&str] = &["", "x", "é", "😀", "ab"];

fn doc_text(c: &str) -> String {
    format!("<r x=\"{}\"><t>{}</t><!--{}--><![CDATA[{}]]></r>", c, c, c, c)
}

fn docs(tier: Tier) -> Vec<InitialDoc> {
    let n = tier.pick(2, CONTENTS.len());
    let mut v: Vec<InitialDoc> = CONTENTS[..n]
        .iter()
        .map(|c| InitialDoc { text: Box::leak(doc_text(c).into_boxed_str()), foreign: None, expanded: false })
        .collect();
    // empty comment and CDATA section (an empty Text node cannot be parsed; split_text creates them)
    v.push(InitialDoc { text: "<r><!----><![CDATA[]]><t>ab</t></r>", foreign: None, expanded: false });
    v
}

fn depth(tier: Tier) -> usize {
    tier.pick(2, 3)
}

/// E1 stage: read-only operations on the merged text node of the text_expanded view
struct Expanded {
    cases: Vec<(String, String)>, // (document text, expected merged data)
}

impl Space for Expanded {
    fn len(&self) -> u64 {
        self.cases.len() as u64
    }
    fn describe(&self, idx: u64) -> String {
        format!("merged-text view of {}", obs::q(&self.cases[idx as usize].0))
    }
    fn run(&self, idx: u64, sink: &mut Sink) {
        let (text, want) = &self.cases[idx as usize];
        let (p, doc) = obs::parse_dom(text, true);
        let doc = match (p, doc) {
            (obs::Parsed::Complete, Some(d)) => d,
            _ => {
                sink.count("unparsable", 1);
                return;
            }
        };
        sink.count("states", 1);
        let root = match doc.document_element() {
            Ok(r) => r,
            Err(_) => return,
        };
        let first = root.first_child();
        let t = match first {
            Some(XmlNode::ExpandedText(t)) => t,
            other => {
                sink.finding(Finding {
                    sig: "expanded/no-merged-text".into(),
                    what: "the merged-text view does not expose one merged text node".into(),
                    case: self.describe(idx),
                    expected: "one ExpandedText child".into(),
                    observed: format!("{:?}", other.map(|n| n.node_name())),
                });
                return;
            }
        };
        let chars: Vec<char> = want.chars().collect();
        let len = chars.len();
        let mut report = |sink: &mut Sink, sig: String, exp: String, obsd: String| {
            sink.finding(Finding {
                sig,
                what: "read-only character-data operation on a merged text node".into(),
                case: format!("merged-text view of {}", obs::q(text)),
                expected: exp,
                observed: obsd,
            });
        };
        sink.count("transitions", 1);
        match guard(|| (t.length(), t.data())) {
            Ok((l, Ok(d))) => {
                if d != *want {
                    report(sink, "expanded/data".into(), format!("{:?}", want), format!("{:?}", d));
                }
                if l != len {
                    report(sink, "expanded/length".into(), len.to_string(), l.to_string());
                }
            }
            Ok((_, Err(e))) => report(sink, "expanded/data-error".into(), format!("{:?}", want), format!("{:?}", e)),
            Err(m) => report(sink, format!("expanded/panic/{}", panic_site(&m)), "a value".into(), m),
        }
        let mut nums: Vec<usize> = (0..=len + 2).collect();
        nums.push(usize::MAX);
        for &o in &nums {
            for &c in &nums {
                sink.count("transitions", 1);
                sink.count("validated", 1);
                sink.count("nontrivial", 1);
                let r = guard(|| t.substring_data(o, c));
                let exp: Result<String, ()> = if o > len { Err(()) } else { Ok(chars[o..o.saturating_add(c).min(len)].iter().collect()) };
                let feat = format!("{}:{}", off_class(o, len), count_class(o, c, len));
                match (r, exp) {
                    (Err(m), _) => report(sink, format!("expanded/panic/substring_data/{}/{}", panic_site(&m), feat), "a value or IndexSizeErr".into(), format!("substring_data({}, {}): {}", o, c, m)),
                    (Ok(Ok(s)), Ok(w)) => {
                        if s != w {
                            report(sink, format!("expanded/wrong-result/substring_data/{}", feat), format!("substring_data({}, {}) = {:?}", o, c, w), format!("{:?}", s));
                        }
                    }
                    (Ok(Err(e)), Err(())) => {
                        if map_err(&e) != crate::model::dom::Exc::IndexSize {
                            report(sink, format!("expanded/wrong-exception/substring_data/{}", feat), "IndexSizeErr".into(), format!("{:?}", e));
                        }
                    }
                    (Ok(Ok(s)), Err(())) => report(sink, format!("expanded/unexpected-success/substring_data/{}", feat), format!("substring_data({}, {}): IndexSizeErr (length {})", o, c, len), format!("{:?}", s)),
                    (Ok(Err(e)), Ok(w)) => report(sink, format!("expanded/unexpected-failure/substring_data/{}", feat), format!("substring_data({}, {}) = {:?}", o, c, w), format!("{:?}", e)),
                }
            }
        }
    }
}

impl Check for C16C {
    fn id(&self) -> &'static str {
        "C16"
    }
    fn stages(&self, tier: Tier) -> Vec<String> {
        let mut v = vec!["expanded".to_string()];
        v.extend(stages_for(depth(tier)));
        v
    }
    fn prepare(&self, stage: &str, tier: Tier, input: &[String]) -> Box<dyn Space> {
        if stage == "expanded" {
            let mut cases = vec![];
            for c in CONTENTS {
                cases.push((format!("<r>{}</r>", c), c.to_string()));
                cases.push((format!("<r>{}<![CDATA[{}]]>&amp;&#x41;{}</r>", c, c, c), format!("{}{}&A{}", c, c, c)));
            }
            return Box::new(Expanded { cases });
        }
        let docs = docs(tier);
        let frontier = if stage == "bfs0" { (0..docs.len()).map(|i| (i, vec![])).collect() } else { parse_frontier(input) };
        Box::new(DomBfs {
            prop: "C16",
            docs,
            alphabet: Alphabet {
                structural: false,
                creations: false,
                attributes: false,
                split: false,
                set_value: false,
                max_creations: 0,
                names: &[],
                values: &[],
                chardata: ARGS,
                chardata_extra: 2,
            chardata_full: true,
            attach_only: false,
                attr_names: &[],
            },
            monitors: Monitors { tree: false, spec: true, order: false, chardata: true, serial: false },
            frontier,
            expand: stage != format!("bfs{}", depth(tier) - 1),
            order_queries: &[],
            warm_queries: &[],
            max_depth: vec![],
        })
    }
    fn meta(&self) -> Meta {
        Meta {
            rule: "explicit-state BFS on the real xml_dom character-data nodes (a Text child of an element, a Text child of an attribute, a Comment, a CDATA section) holding ASCII, 2-, 3- and 4-byte and combining characters: substring_data, delete_data, replace_data with every offset and count in 0..=length+2 and usize::MAX, insert_data and split_text with every such offset, append_data / set_data / replace_data / insert_data with every argument string from {'', x, é, 😀, ab}; the reference model (Vec<char>, DOM Level 1: offset > length is an index-size error, a count past the end is clipped, split_text leaves two adjacent siblings whose data concatenate to the original) is applied in lock-step: result, successor tree (all data strings as Strings, so a cut multi-byte character is visible), exception class, atomic failure, no panic; length() is compared with the character count of data() on every node after every call. Stage 'expanded': length / data / substring_data with all offsets and counts on the merged text node of the text_expanded view. Non-trivial = the call succeeded or changed the state.",
            bounds_quick: "2 content strings (astral, combining) + empty comment/CDATA document, call histories of depth 2; merged view: 12 documents x all (offset, count)",
            bounds_thorough: "6 content strings + empty comment/CDATA document, call histories of depth 3",
            assumptions: &["argument strings contain no markup-significant characters (those are C15's)"],
            unbounded_total: false,
        }
    }
    fn case_cap(&self, tier: Tier) -> f64 {
        tier.pick(30.0, 120.0)
    }
}
