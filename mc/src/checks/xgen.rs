//! Documents and expressions shared by the XPath checks (C05, C06, C07, C08, C19).

use crate::model::adoc::*;
use crate::model::gen::skeletons;
use crate::model::xpath::*;

pub fn pi(t: &str, d: Option<&str>) -> ANode {
    ANode::PI(t.to_string(), d.map(|x| x.to_string()))
}
pub fn com(s: &str) -> ANode {
    ANode::Comment(s.to_string())
}

/// hand-picked documents: several context nodes reach the same node, mixed node kinds, namespaces,
/// DTD defaults, references and CDATA (merged into text in the view used by xq / xe)
pub fn rich_docs() -> Vec<ADoc> {
    let mut v = vec![];
    // D0 attributes, text, same-named siblings and cousins
    v.push(doc(el(
        "r",
        vec![],
        vec![
            e("a", vec![at("x", "1")], vec![tx("t"), e("b", vec![], vec![]), tx("u")]),
            e("a", vec![at("y", "2")], vec![e("b", vec![at("x", "3")], vec![tx("1")]), e("b", vec![], vec![tx("2")])]),
            e("c", vec![], vec![]),
        ],
    )));
    // D1 comments and PIs inside and outside the root, two PIs side by side
    let mut d = doc(el(
        "r",
        vec![],
        vec![pi("p", Some("d")), e("a", vec![], vec![]), tx("t"), com("c"), pi("q", None), pi("p", None), e("b", vec![], vec![tx("v")])],
    ));
    d.pre.push(com("k"));
    d.post.push(pi("z", None));
    v.push(d);
    // D2 deep chain of same-named elements
    v.push(doc(el(
        "r",
        vec![],
        vec![e("a", vec![], vec![e("a", vec![], vec![e("a", vec![at("x", "1")], vec![])]), e("b", vec![], vec![])]), e("a", vec![], vec![])],
    )));
    // D3 namespaces: default, prefixed, undeclared default, prefixed attribute
    v.push(doc(el(
        "r",
        vec![at("xmlns", "u"), at("xmlns:p", "v")],
        vec![
            e("p:a", vec![at("p:x", "1"), at("x", "2")], vec![]),
            e("a", vec![at("xmlns", "")], vec![e("b", vec![], vec![])]),
            e("a", vec![], vec![e("p:b", vec![at("xmlns:p", "w")], vec![])]),
        ],
    )));
    // D4 DTD default, entity reference, CDATA and character reference merged into text
    let mut d = doc(el(
        "r",
        vec![],
        vec![
            e("a", vec![], vec![]),
            tx("x"),
            ANode::EntRef("e".into()),
            ANode::CData("<y>".into()),
            ANode::CharRef('A'),
            e("a", vec![at("d", "w")], vec![tx("2")]),
            // a second element receiving the default: the two defaulted attributes are distinct nodes
            e("a", vec![at("i", "2")], vec![]),
        ],
    ));
    d.doctype = Some(ADoctype {
        name: "r".into(),
        public: None,
        system: None,
        decls: vec![
            ADecl::AttList {
                elem: "a".into(),
                defs: vec![AAttDef { name: "d".into(), ty: "CDATA".into(), default: ADefault::Value { fixed: false, value: vec![Part::Text("dv".into())] } }],
            },
            ADecl::Entity { name: "e".into(), value: vec![Part::Text("ent".into())] },
        ],
        subset: true,
    });
    v.push(d);
    // D5 xml:lang
    v.push(doc(el(
        "r",
        vec![at("xml:lang", "en")],
        vec![
            e("a", vec![at("xml:lang", "en-US")], vec![e("b", vec![], vec![tx("1")])]),
            e("c", vec![at("xml:lang", "")], vec![]),
            e("d", vec![], vec![tx("2")]),
            e("e", vec![at("xml:lang", "DE")], vec![]),
            // an upper-case primary tag with a sub-tag: lang('de') is true by prefix, ignoring case
            e("f", vec![at("xml:lang", "De-AT")], vec![e("g", vec![], vec![])]),
        ],
    )));
    // D6 numeric text, keyword-named elements
    v.push(doc(el(
        "r",
        vec![],
        vec![
            e("div", vec![], vec![tx("4")]),
            e("mod", vec![], vec![tx("3")]),
            e("and", vec![], vec![tx(" 2 ")]),
            e("or", vec![], vec![tx("x")]),
            e("text", vec![], vec![tx("1.5")]),
            e("node", vec![], vec![]),
        ],
    )));
    // D7 siblings for positional predicates on both directions
    v.push(doc(el(
        "r",
        vec![],
        vec![
            e("a", vec![at("x", "1")], vec![]),
            e("b", vec![], vec![]),
            e("a", vec![at("x", "2")], vec![]),
            e("b", vec![at("x", "2")], vec![]),
            e("a", vec![], vec![e("a", vec![at("x", "1")], vec![])]),
        ],
    )));
    // D8 comments and PIs on both sides of a DOCTYPE: sibling / following / preceding axes at the top
    // level must pass over the document type declaration
    let mut d = doc(el("r", vec![], vec![e("c", vec![], vec![]), com("in"), e("c", vec![at("x", "1")], vec![])]));
    d.pre.push(com("pre"));
    d.pre.push(pi("pp", None));
    d.doctype = Some(ADoctype { name: "r".into(), public: None, system: None, decls: vec![], subset: false });
    d.mid.push(com("mid"));
    d.mid.push(pi("pm", Some("d")));
    d.post.push(com("post"));
    v.push(d);
    // D9 empty CDATA sections: alone in an element, between elements, next to text (no text node is empty in the data model)
    v.push(doc(el(
        "r",
        vec![],
        vec![
            ANode::CData("".into()),
            e("a", vec![], vec![ANode::CData("".into())]),
            ANode::CData("".into()),
            ANode::CData("".into()),
            e("b", vec![], vec![tx("x"), ANode::CData("".into())]),
            e("c", vec![], vec![ANode::CData("".into()), ANode::CData("y".into())]),
        ],
    )));
    v
}

/// every element skeleton with <= n elements, bare and with one decoration
pub fn skeleton_docs(n: usize, decorate: bool) -> Vec<ADoc> {
    let mut v = vec![];
    for sk in skeletons(n) {
        v.push(doc(sk.clone()));
        if !decorate {
            continue;
        }
        let count = count_elems_local(&sk);
        for i in 0..count {
            for d in 0..4 {
                let mut s = sk.clone();
                with_nth(&mut s, i, &mut |e: &mut AElem| match d {
                    0 => e.attrs.push(at("x", "1")),
                    1 => e.children.insert(0, tx("1")),
                    2 => e.children.push(com("c")),
                    _ => e.children.push(pi("p", None)),
                });
                v.push(doc(s));
            }
        }
    }
    v
}

fn count_elems_local(e: &AElem) -> usize {
    1 + e.children.iter().map(|c| if let ANode::Elem(x) = c { count_elems_local(x) } else { 0 }).sum::<usize>()
}

fn with_nth(e: &mut AElem, n: usize, f: &mut dyn FnMut(&mut AElem)) -> usize {
    // returns the number of elements visited
    if n == 0 {
        f(e);
        return 1;
    }
    let mut seen = 1;
    for c in e.children.iter_mut() {
        if let ANode::Elem(x) = c {
            if n >= seen {
                let k = with_nth(x, n - seen, f);
                seen += k;
                if n < seen {
                    return seen;
                }
            }
        }
    }
    seen
}

pub fn docs(quick: bool) -> Vec<ADoc> {
    let mut v = rich_docs();
    v.extend(skeleton_docs(if quick { 4 } else { 5 }, true));
    v
}

// ---------------------------------------------------------------------------------------------
// expressions

pub fn tests() -> Vec<NodeTest> {
    vec![
        NodeTest::Any,
        name("a"),
        name("b"),
        name("x"),
        NodeTest::Node,
        NodeTest::Text,
        NodeTest::Comment,
        NodeTest::PI(None),
        NodeTest::PI(Some("p".into())),
    ]
}

pub fn preds() -> Vec<Vec<Expr>> {
    let p = |e: Expr| vec![e];
    let pos = || call("position", vec![]);
    let last = || call("last", vec![]);
    vec![
        vec![],
        p(num("1")),
        p(num("2")),
        p(last()),
        p(bin(Op::Eq, pos(), num("2"))),
        p(bin(Op::Lt, pos(), last())),
        p(path(false, vec![step(Axis::Attribute, name("x"))])),
        p(path(false, vec![step(Axis::Child, name("b"))])),
        p(call("not", vec![path(false, vec![step(Axis::Child, name("b"))])])),
        p(bin(Op::Eq, path(false, vec![step(Axis::SelfAxis, NodeTest::Node)]), lit("1"))),
        vec![path(false, vec![step(Axis::Child, NodeTest::Any)]), num("1")],
        vec![num("1"), path(false, vec![step(Axis::Attribute, NodeTest::Any)])],
        p(num("1.5")),
        p(num("0")),
    ]
}

/// starting points: every element, every attribute, every text / comment / PI node, the root
pub fn contexts() -> Vec<Vec<Step>> {
    vec![
        vec![step(Axis::Descendant, NodeTest::Any)],
        vec![dslash(), step(Axis::Attribute, NodeTest::Any)],
        vec![dslash(), step(Axis::Child, NodeTest::Text)],
        vec![dslash(), step(Axis::Child, NodeTest::Comment)],
        vec![dslash(), step(Axis::Child, NodeTest::PI(None))],
        vec![step(Axis::Child, NodeTest::Node)],
        vec![],
    ]
}

/// family A: every axis x every node test x every predicate list, from every kind of context node
pub fn axis_family() -> Vec<Expr> {
    let mut v = vec![];
    for c in contexts() {
        for ax in AXES {
            for t in tests() {
                for p in preds() {
                    let mut steps = c.clone();
                    steps.push(stepp(*ax, t.clone(), p.clone()));
                    v.push(path(true, steps));
                }
            }
        }
    }
    v
}

/// family B: three-step paths with at most `k` slots differing from `child::*` without predicate
pub fn three_step_family(k: usize) -> Vec<Expr> {
    let axes = [Axis::Child, Axis::Descendant, Axis::Parent, Axis::Ancestor, Axis::FollowingSibling, Axis::PrecedingSibling, Axis::Following, Axis::Preceding, Axis::Attribute, Axis::SelfAxis, Axis::DescendantOrSelf, Axis::AncestorOrSelf];
    let ts = [NodeTest::Any, name("a"), name("b"), NodeTest::Node, NodeTest::Text];
    let ps: Vec<Vec<Expr>> = vec![vec![], vec![num("1")], vec![call("last", vec![])], vec![path(false, vec![step(Axis::Attribute, name("x"))])]];
    // slot values: index 0 is the default
    let slots: [usize; 9] = [axes.len(), ts.len(), ps.len(), axes.len(), ts.len(), ps.len(), axes.len(), ts.len(), ps.len()];
    let mut v = vec![];
    let mut idx = [0usize; 9];
    fn rec(pos: usize, left: usize, idx: &mut [usize; 9], slots: &[usize; 9], out: &mut Vec<[usize; 9]>) {
        if pos == 9 {
            out.push(*idx);
            return;
        }
        idx[pos] = 0;
        rec(pos + 1, left, idx, slots, out);
        if left > 0 {
            for v in 1..slots[pos] {
                idx[pos] = v;
                rec(pos + 1, left - 1, idx, slots, out);
            }
            idx[pos] = 0;
        }
    }
    let mut combos = vec![];
    rec(0, k, &mut idx, &slots, &mut combos);
    for c in combos {
        for absolute in [true] {
            let steps = vec![
                stepp(axes[c[0]], ts[c[1]].clone(), ps[c[2]].clone()),
                stepp(axes[c[3]], ts[c[4]].clone(), ps[c[5]].clone()),
                stepp(axes[c[6]], ts[c[7]].clone(), ps[c[8]].clone()),
            ];
            v.push(path(absolute, steps.clone()));
            // the same three steps below `//`
            let mut s2 = vec![dslash()];
            s2.extend(steps);
            v.push(path(true, s2));
        }
    }
    v
}

/// a pool of node-set valued paths used for unions, filters, functions and comparisons
pub fn path_pool() -> Vec<Expr> {
    let c = |n: &str| step(Axis::Child, name(n));
    vec![
        path(true, vec![dslash(), c("a")]),
        path(true, vec![dslash(), c("b")]),
        path(true, vec![dslash(), step(Axis::Child, NodeTest::Any)]),
        path(true, vec![c("r"), c("a")]),
        path(true, vec![c("r"), step(Axis::Child, NodeTest::Any)]),
        path(true, vec![dslash(), step(Axis::Attribute, NodeTest::Any)]),
        path(true, vec![dslash(), step(Axis::Attribute, name("x"))]),
        path(true, vec![dslash(), step(Axis::Child, NodeTest::Text)]),
        path(true, vec![dslash(), step(Axis::Child, NodeTest::Node)]),
        path(true, vec![dslash(), c("b"), step(Axis::Parent, NodeTest::Node)]),
        path(true, vec![dslash(), c("b"), step(Axis::Ancestor, NodeTest::Any)]),
        path(true, vec![dslash(), c("a"), step(Axis::FollowingSibling, NodeTest::Any)]),
        path(true, vec![dslash(), c("b"), step(Axis::PrecedingSibling, NodeTest::Node)]),
        path(true, vec![dslash(), c("b"), step(Axis::Preceding, NodeTest::Any)]),
        path(true, vec![dslash(), c("a"), step(Axis::Following, NodeTest::Node)]),
        path(true, vec![dslash(), step(Axis::Child, NodeTest::Comment)]),
        path(true, vec![dslash(), step(Axis::Child, NodeTest::PI(None))]),
        path(true, vec![c("r"), c("c")]),
        path(true, vec![c("r"), c("none")]),
        path(true, vec![]),
        path(true, vec![dslash(), c("a"), c("b")]),
        path(true, vec![dslash(), c("a"), step(Axis::Descendant, NodeTest::Any)]),
        path(true, vec![dslash(), stepp(Axis::Child, NodeTest::Any, vec![path(false, vec![step(Axis::Attribute, name("x"))])])]),
        path(true, vec![dslash(), stepp(Axis::Child, name("a"), vec![num("1")])]),
        path(true, vec![dslash(), stepp(Axis::Child, name("b"), vec![call("last", vec![])])]),
    ]
}

pub fn set_family() -> Vec<Expr> {
    let pool = path_pool();
    let mut v = vec![];
    let ns = [num("1"), num("2"), call("last", vec![]), bin(Op::Gt, call("position", vec![]), num("1"))];
    for a in &pool {
        for n in &ns {
            v.push(filter(a.clone(), vec![n.clone()], vec![]));
            v.push(filter(a.clone(), vec![n.clone()], vec![step(Axis::Child, NodeTest::Any)]));
            v.push(filter(a.clone(), vec![n.clone()], vec![dslash(), step(Axis::Child, NodeTest::Node)]));
        }
        for b in &pool {
            v.push(bin(Op::Union, a.clone(), b.clone()));
            v.push(call("count", vec![bin(Op::Union, a.clone(), b.clone())]));
            v.push(filter(bin(Op::Union, a.clone(), b.clone()), vec![num("1")], vec![]));
            v.push(filter(bin(Op::Union, a.clone(), b.clone()), vec![call("last", vec![])], vec![]));
            for op in [Op::Eq, Op::Ne, Op::Lt, Op::Ge] {
                v.push(bin(op, a.clone(), b.clone()));
            }
        }
        for f in ["count", "sum", "string", "name", "local-name", "namespace-uri", "number", "boolean", "string-length", "normalize-space"] {
            v.push(call(f, vec![a.clone()]));
        }
        for o in [num("1"), num("2"), lit("1"), lit("t"), lit(""), call("true", vec![]), call("false", vec![])] {
            for op in [Op::Eq, Op::Ne, Op::Lt, Op::Le, Op::Gt, Op::Ge] {
                v.push(bin(op, a.clone(), o.clone()));
                v.push(bin(op, o.clone(), a.clone()));
            }
        }
    }
    // several predicates on one filter expression: the later ones count what the earlier ones left
    for a in &pool {
        for p1 in [path(false, vec![step(Axis::Attribute, name("x"))]), bin(Op::Gt, call("position", vec![]), num("1")), path(false, vec![step(Axis::Child, NodeTest::Any)])] {
            for p2 in [call("last", vec![]), num("1"), num("2"), bin(Op::Eq, call("position", vec![]), call("last", vec![])), bin(Op::Lt, call("position", vec![]), call("last", vec![]))] {
                v.push(filter(a.clone(), vec![p1.clone(), p2.clone()], vec![]));
                v.push(filter(a.clone(), vec![p2.clone(), p1.clone()], vec![]));
            }
        }
    }
    // a one-step relative path on every axis inside a predicate, used where the order of the
    // node-set matters (string / name of the first node in document order, positional filter)
    for ax in AXES {
        for t in [NodeTest::Any, NodeTest::Node] {
            let rel = path(false, vec![step(*ax, t.clone())]);
            for probe in [
                bin(Op::Eq, call("name", vec![rel.clone()]), lit("a")),
                bin(Op::Eq, call("string", vec![rel.clone()]), lit("1")),
                bin(Op::Eq, call("local-name", vec![filter(rel.clone(), vec![num("1")], vec![])]), lit("a")),
                bin(Op::Eq, call("local-name", vec![filter(rel.clone(), vec![call("last", vec![])], vec![])]), lit("b")),
                bin(Op::Eq, call("count", vec![rel.clone()]), num("2")),
                bin(Op::Eq, call("number", vec![rel.clone()]), num("1")),
            ] {
                v.push(path(true, vec![dslash(), stepp(Axis::Child, NodeTest::Node, vec![probe.clone()])]));
                v.push(path(true, vec![dslash(), stepp(Axis::Attribute, NodeTest::Any, vec![probe.clone()])]));
            }
        }
    }
    // `//` in the middle of a path, followed by a step with a positional predicate
    for t in [NodeTest::Any, name("a"), name("b"), NodeTest::Node, NodeTest::Text] {
        for p in preds() {
            v.push(path(true, vec![step(Axis::Child, name("r")), dslash(), stepp(Axis::Child, t.clone(), p.clone())]));
            v.push(path(true, vec![step(Axis::Child, name("r")), step(Axis::Child, name("a")), dslash(), stepp(Axis::Child, t.clone(), p.clone())]));
            v.push(path(true, vec![step(Axis::Child, NodeTest::Any), dslash(), stepp(Axis::Child, t.clone(), p.clone()), step(Axis::Child, NodeTest::Any)]));
        }
    }
    // context-dependent functions inside predicates, lang(), name() without argument
    let star = |p: Vec<Expr>| path(true, vec![dslash(), stepp(Axis::Child, NodeTest::Any, p)]);
    for l in ["en", "EN", "en-US", "en-us", "e", "de", ""] {
        v.push(star(vec![call("lang", vec![lit(l)])]));
    }
    // a predicate on an attribute whose answer depends on the bearing element (attributes with equal names and values
    // on different elements, e.g. the same DTD default, must not share an answer)
    for (an, other, val) in [("d", "i", "2"), ("d", "d", "dv"), ("x", "y", "2")] {
        let up = path(false, vec![step(Axis::Parent, NodeTest::Node), step(Axis::Attribute, name(other))]);
        let p = vec![bin(Op::Eq, up, lit(val))];
        v.push(path(true, vec![dslash(), step(Axis::Child, NodeTest::Any), stepp(Axis::Attribute, name(an), p.clone())]));
        v.push(star(vec![path(false, vec![stepp(Axis::Attribute, name(an), p.clone())])]));
        v.push(path(true, vec![dslash(), stepp(Axis::Attribute, NodeTest::Any, vec![bin(Op::Eq, call("count", vec![path(false, vec![step(Axis::Parent, NodeTest::Node), step(Axis::Attribute, NodeTest::Any)])]), Expr::Num("2".into()))])]));
    }
    for f in ["name", "local-name", "namespace-uri", "string", "number", "string-length", "normalize-space"] {
        v.push(star(vec![bin(Op::Eq, call(f, vec![]), lit("a"))]));
        v.push(path(true, vec![dslash(), stepp(Axis::Attribute, NodeTest::Any, vec![bin(Op::Eq, call(f, vec![]), lit("x"))])]));
        v.push(call(f, vec![]));
    }
    // nested predicates with position() / last() at two levels
    v.push(star(vec![path(false, vec![stepp(Axis::Child, NodeTest::Any, vec![bin(Op::Eq, call("position", vec![]), call("last", vec![]))])])]));
    v.push(star(vec![bin(Op::And, path(false, vec![stepp(Axis::Child, name("b"), vec![num("1")])]), bin(Op::Eq, call("position", vec![]), num("2")))]));
    v.push(star(vec![bin(Op::Eq, call("count", vec![path(false, vec![stepp(Axis::Child, NodeTest::Any, vec![num("1")])])]), call("position", vec![]))]));
    v.push(star(vec![bin(Op::Eq, call("position", vec![]), call("last", vec![])), bin(Op::Eq, call("last", vec![]), num("1"))]));
    v
}

pub fn dedup(mut v: Vec<Expr>) -> Vec<Expr> {
    let mut seen = std::collections::HashSet::new();
    v.retain(|e| seen.insert(canonical(e)));
    v
}

pub fn expressions(quick: bool) -> Vec<Expr> {
    let mut v = axis_family();
    v.extend(three_step_family(if quick { 1 } else { 2 }));
    v.extend(set_family());
    dedup(v)
}

/// feature tuple of an expression for signatures: axes, node tests, predicate kinds, functions, operators
pub fn features(e: &Expr) -> String {
    let mut f: std::collections::BTreeSet<String> = std::collections::BTreeSet::new();
    fn walk(e: &Expr, f: &mut std::collections::BTreeSet<String>) {
        match e {
            Expr::Bin(op, a, b) => {
                f.insert(format!("op:{}", op.text()));
                walk(a, f);
                walk(b, f);
            }
            Expr::Neg(a) => {
                f.insert("op:neg".into());
                walk(a, f);
            }
            Expr::Path { steps, .. } => steps_f(steps, f),
            Expr::Filter { base, preds, steps } => {
                f.insert("filter".into());
                walk(base, f);
                for p in preds {
                    pred_f(p, f);
                }
                steps_f(steps, f);
            }
            Expr::Call(n, args) => {
                f.insert(format!("fn:{}", n));
                for a in args {
                    walk(a, f);
                }
            }
            Expr::Num(_) | Expr::Str(_) => {}
            Expr::Var(_) => {
                f.insert("var".into());
            }
        }
    }
    fn pred_f(p: &Expr, f: &mut std::collections::BTreeSet<String>) {
        match p {
            Expr::Num(n) => {
                f.insert(if n.contains('.') { "pred:fraction".into() } else { "pred:number".into() });
            }
            other => {
                f.insert("pred".into());
                walk(other, f);
            }
        }
    }
    fn steps_f(steps: &[Step], f: &mut std::collections::BTreeSet<String>) {
        for s in steps {
            if s.axis != Axis::Child && !(s.axis == Axis::DescendantOrSelf && s.test == NodeTest::Node) {
                f.insert(format!("axis:{}", s.axis.name()));
            }
            match &s.test {
                NodeTest::Text => {
                    f.insert("test:text".into());
                }
                NodeTest::Comment => {
                    f.insert("test:comment".into());
                }
                NodeTest::PI(None) => {
                    f.insert("test:pi".into());
                }
                NodeTest::PI(Some(_)) => {
                    f.insert("test:pi-literal".into());
                }
                NodeTest::NsAny(_) => {
                    f.insert("test:prefix-star".into());
                }
                NodeTest::Name(n) if n.contains(':') => {
                    f.insert("test:prefixed".into());
                }
                _ => {}
            }
            for p in &s.preds {
                pred_f(p, f);
            }
        }
    }
    walk(e, &mut f);
    f.into_iter().collect::<Vec<_>>().join("+")
}
