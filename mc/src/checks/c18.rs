//! C18 — character classes for every code point, and name syntax for short strings over class
//! representatives and every range boundary.

use crate::engine::{guard, panic_site, Check, Finding, Meta, Sink, Space, Tier};
use crate::model::chars;
use crate::obs;
use xml_info::{
    Attribute as _, Character as _, Document as _, DocumentTypeDeclaration as _, Element as _, HasQName,
    Notation as _, ProcessingInstruction as _, UnexpandedEntityReference as _,
};

pub struct C18C;
pub static C18: C18C = C18C;

const BLOCK: u32 = 2048;

impl Check for C18C {
    fn id(&self) -> &'static str {
        "C18"
    }
    fn stages(&self, _tier: Tier) -> Vec<String> {
        vec!["codepoints".into(), "slots".into(), "names".into(), "pitargets".into(), "head-xmlns".into(), "head-xml".into(), "head-p:".into()]
    }
    fn prepare(&self, stage: &str, tier: Tier, _input: &[String]) -> Box<dyn Space> {
        match stage {
            "codepoints" => Box::new(CodePoints),
            "slots" => Box::new(Slots { points: slot_points(tier) }),
            "pitargets" => Box::new(Names::with(PI_ALPHABET, tier.pick(4, 5), &["pitarget", "element", "entity"])),
            "head-xmlns" => Box::new(Names::with_head("xmlns", TAIL_ALPHABET, tier.pick(2, 3), &["element", "endtag", "attribute", "xpath"])),
            "head-xml" => Box::new(Names::with_head("xml", TAIL_ALPHABET, tier.pick(2, 3), &["element", "attribute", "pitarget", "entity"])),
            "head-p:" => Box::new(Names::with_head("p:", TAIL_ALPHABET, tier.pick(2, 3), &["element", "endtag", "attribute", "xpath"])),
            _ => Box::new(Names::with(ALPHABET, tier.pick(3, 4), CONTEXTS)),
        }
    }
    fn meta(&self) -> Meta {
        Meta {
            rule: "stage codepoints: every Unicode scalar value (all 1,114,112; surrogates are not chars) x 5 public predicates against tables transcribed from productions [2],[4],[4a],[13],[81]; a state is non-trivial when at least one of the five reference predicates is true for it. stage slots: every Unicode scalar value placed in each of 16 syntactic slots whose character class the parsers decide themselves (VersionNum, EncName first / later, decimal and hexadecimal CharRef digits, S in three places, PubidLiteral, SystemLiteral, EntityValue, CharData, AttValue, Comment, PI data, CDATA) and in two XPath expressions (between two numbers, inside a literal): the document is accepted iff the class of the production holds. stage names: every string of length <= L over 30 class representatives / range boundaries, used in 8 syntactic positions (element, end tag, attribute, PI target, entity decl+ref, notation, DOCTYPE, XPath name test); accept/reject and the reported name compared with reference Name/NCName/QName matchers; non-trivial = reference accepts in at least one position",
            bounds_quick: "code points: none (total); slots: every scalar value below U+3400, every 16th beyond, both sides of every boundary of the reference tables and of every change point of eight std character predicates; names: length <= 3 over a 30 symbol alphabet; heads xmlns / xml / p: followed by every tail of length <= 2 over 12 class representatives",
            bounds_thorough: "code points and slots: none (total: all 1,112,064 scalar values); names: length <= 4 over a 30 symbol alphabet; heads xmlns / xml / p: followed by every tail of length <= 3",
            assumptions: &[
                "reference tables in /verif/mc/src/model/chars.rs are a faithful transcription of XML 1.0 5th ed. productions [2],[4],[4a],[13],[81]",
                "PI target / entity / notation names: anything between NCName (Namespaces in XML) and Name (XML 1.0) may be accepted or rejected; element, attribute and XPath names must be exactly QName",
            ],
            unbounded_total: false,
        }
    }
}

// ---------------------------------------------------------------------------------------------

/// every code point in every syntactic slot whose character class the parsers decide themselves (with nom's or std's
/// character tests, not through xmlchar): the slot accepts the document iff the class of the production holds
struct Slots {
    points: Vec<u32>,
}

const SLOT_BLOCK: usize = 256;

/// thorough: every scalar value.  quick: every scalar value below U+3400, every 16th beyond, both sides of every boundary of
/// the reference tables and both sides of every point where one of std's character predicates (the ones a parser is likely to
/// reach for) changes its answer -- so that every run of every such class is represented by its two ends.
fn slot_points(tier: Tier) -> Vec<u32> {
    if tier == Tier::Thorough {
        return (0..0x110000u32).filter(|u| char::from_u32(*u).is_some()).collect();
    }
    let mut keep = vec![false; 0x110000];
    for u in 0..0x3400usize {
        keep[u] = true;
    }
    for u in (0x3400..0x110000usize).step_by(16) {
        keep[u] = true;
    }
    for t in [chars::CHAR, chars::NAME_START, chars::NAME_EXTRA] {
        for (a, b) in t {
            for u in [a.saturating_sub(1), *a, *b, b + 1] {
                if (u as usize) < keep.len() {
                    keep[u as usize] = true;
                }
            }
        }
    }
    let class = |c: char| -> [bool; 8] { [c.is_alphabetic(), c.is_numeric(), c.is_alphanumeric(), c.is_whitespace(), c.is_control(), c.is_uppercase(), c.is_lowercase(), c.is_digit(36)] };
    let mut prev: Option<(u32, [bool; 8])> = None;
    for u in 0..0x110000u32 {
        if let Some(c) = char::from_u32(u) {
            let k = class(c);
            if let Some((pu, pk)) = prev {
                if pk != k {
                    keep[pu as usize] = true;
                    keep[u as usize] = true;
                }
            }
            prev = Some((u, k));
        }
    }
    (0..0x110000u32).filter(|u| keep[*u as usize] && char::from_u32(*u).is_some()).collect()
}

struct Slot {
    name: &'static str,
    make: fn(char) -> String,
    accept: fn(char) -> bool,
}

fn hexdigit(c: char) -> bool {
    c.is_ascii_hexdigit()
}

const SLOTS: &[Slot] = &[
    Slot { name: "P26.VersionNum", make: |c| format!("<?xml version='1.{}'?><r/>", c), accept: |c| c.is_ascii_digit() },
    Slot { name: "P81.EncName-first", make: |c| format!("<?xml version='1.0' encoding='{}A'?><r/>", c), accept: |c| c.is_ascii_alphabetic() },
    Slot { name: "P81.EncName-later", make: |c| format!("<?xml version='1.0' encoding='A{}'?><r/>", c), accept: |c| c.is_ascii_alphanumeric() || c == '.' || c == '_' || c == '-' },
    Slot { name: "P66.CharRef-decimal", make: |c| format!("<r>&#5{};</r>", c), accept: |c| c.is_ascii_digit() },
    Slot { name: "P66.CharRef-hex", make: |c| format!("<r>&#x4{};</r>", c), accept: hexdigit },
    Slot { name: "P3.S-between-attributes", make: |c| format!("<r a='v'{}b='w'/>", c), accept: chars::is_space },
    Slot { name: "P3.S-in-xmldecl", make: |c| format!("<?xml{}version='1.0'?><r/>", c), accept: chars::is_space },
    Slot { name: "P3.S-in-doctype", make: |c| format!("<!DOCTYPE{}r><r/>", c), accept: chars::is_space },
    Slot { name: "P12.PubidLiteral", make: |c| format!("<!DOCTYPE r PUBLIC '{}' 's'><r/>", c), accept: |c| chars::is_pubid_char(c) && c != '\'' },
    Slot { name: "P11.SystemLiteral", make: |c| format!("<!DOCTYPE r SYSTEM '{}'><r/>", c), accept: |c| chars::is_char(c) && c != '\'' },
    Slot { name: "P9.EntityValue", make: |c| format!("<!DOCTYPE r [<!ENTITY e '{}'>]><r/>", c), accept: |c| chars::is_char(c) && c != '\'' && c != '%' && c != '&' },
    Slot { name: "P14.CharData", make: |c| format!("<r>{}</r>", c), accept: |c| chars::is_char(c) && c != '<' && c != '&' },
    Slot { name: "P10.AttValue", make: |c| format!("<r a='{}'/>", c), accept: |c| chars::is_char(c) && c != '<' && c != '&' && c != '\'' },
    Slot { name: "P15.Comment", make: |c| format!("<!--{}--><r/>", c), accept: |c| chars::is_char(c) && c != '-' },
    Slot { name: "P16.PI-data", make: |c| format!("<?p {}?><r/>", c), accept: chars::is_char },
    Slot { name: "P20.CData", make: |c| format!("<r><![CDATA[{}]]></r>", c), accept: chars::is_char },
];

impl Space for Slots {
    fn len(&self) -> u64 {
        self.points.len().div_ceil(SLOT_BLOCK) as u64
    }
    fn describe(&self, idx: u64) -> String {
        let lo = idx as usize * SLOT_BLOCK;
        let hi = (lo + SLOT_BLOCK).min(self.points.len());
        format!(
            "{} code points U+{:04X}..=U+{:04X} in the slots {:?} (e.g. {}) and in the XPath expressions 1<c>2 and string-length('<c>')",
            hi - lo,
            self.points[lo],
            self.points[hi - 1],
            SLOTS.iter().map(|s| s.name).collect::<Vec<_>>(),
            obs::q(&(SLOTS[1].make)('U'))
        )
    }
    fn run(&self, idx: u64, sink: &mut Sink) {
        let lo = idx as usize * SLOT_BLOCK;
        let hi = (lo + SLOT_BLOCK).min(self.points.len());
        if idx == 0 {
            sink.sample(|| self.describe(0));
        }
        let xdoc = obs::parse_dom("<r/>", true).1.expect("<r/>");
        for &u in &self.points[lo..hi] {
            let c = match char::from_u32(u) {
                Some(c) => c,
                None => continue,
            };
            sink.count("states", 1);
            let mut any = false;
            for slot in SLOTS {
                let text = (slot.make)(c);
                let want = (slot.accept)(c);
                any |= want;
                sink.count("transitions", 1);
                match guard(|| obs::parse_info(&text).0) {
                    Ok(p) => {
                        sink.count("validated", 1);
                        let got = p == obs::Parsed::Complete;
                        if got != want {
                            let class = if c.is_ascii() { format!("U+{:04X}", u) } else if c.is_alphabetic() { "non-ascii-alphabetic".to_string() } else if c.is_numeric() { "non-ascii-numeric".to_string() } else if c.is_whitespace() { "non-ascii-whitespace".to_string() } else { "non-ascii-other".to_string() };
                            sink.finding(Finding {
                                sig: format!("slot-{}/{}/{}", if got { "accepts" } else { "rejects" }, slot.name, class),
                                what: format!("the parser {} U+{:04X} in {}", if got { "accepts" } else { "rejects" }, u, slot.name),
                                case: obs::q(&text),
                                expected: if want { "accepted".into() } else { "refused".into() },
                                observed: format!("{:?}", p),
                            });
                        }
                    }
                    Err(m) => sink.finding(Finding {
                        sig: format!("panic/{}/{}", panic_site(&m), slot.name),
                        what: "the parser panicked".into(),
                        case: obs::q(&text),
                        expected: "a document or an error".into(),
                        observed: m,
                    }),
                }
            }
            // XPath: no character outside ASCII separates or joins two numbers; a literal holds any character
            if !c.is_ascii() {
                sink.count("transitions", 1);
                let e = format!("1{}2", c);
                let r = guard(|| xml_xpath::query(xdoc.clone(), &e, &mut xml_xpath::eval::model::Context::default()).map(|v| format!("{}", v)).map_err(|e| format!("{:?}", e)));
                sink.count("validated", 1);
                if !matches!(r, Ok(Err(_))) {
                    sink.finding(Finding {
                        sig: format!("slot-accepts/xpath-between-numbers/{}", if c.is_whitespace() { "non-ascii-whitespace" } else if c.is_numeric() { "non-ascii-numeric" } else { "non-ascii-other" }),
                        what: format!("the XPath parser accepts U+{:04X} between two numbers", u),
                        case: obs::q(&e),
                        expected: "an error".into(),
                        observed: format!("{:?}", r),
                    });
                }
            }
            if c != '\'' {
                sink.count("transitions", 1);
                let e = format!("string-length('{}')", c);
                let r = guard(|| xml_xpath::query(xdoc.clone(), &e, &mut xml_xpath::eval::model::Context::default()).map(|v| format!("{}", v)).map_err(|e| format!("{:?}", e)));
                sink.count("validated", 1);
                if r != Ok(Ok("1".to_string())) {
                    sink.finding(Finding {
                        sig: format!("xpath-literal/{}", if c.is_ascii() { format!("U+{:04X}", u) } else { "non-ascii".into() }),
                        what: format!("an XPath literal holding U+{:04X} is not a string of one character", u),
                        case: obs::q(&e),
                        expected: "1".into(),
                        observed: format!("{:?}", r),
                    });
                }
            }
            if any {
                sink.count("nontrivial", 1);
            }
        }
    }
}

// ---------------------------------------------------------------------------------------------

struct CodePoints;

impl Space for CodePoints {
    fn len(&self) -> u64 {
        (0x110000u32).div_ceil(BLOCK) as u64
    }
    fn describe(&self, idx: u64) -> String {
        let lo = idx as u32 * BLOCK;
        format!("code points U+{:04X}..=U+{:04X} x is_char/is_name_start_char/is_name_char/is_pubid_char/is_enc_name", lo, lo + BLOCK - 1)
    }
    fn run(&self, idx: u64, sink: &mut Sink) {
        let lo = idx as u32 * BLOCK;
        if idx == 0 {
            sink.sample(|| self.describe(0));
        }
        for u in lo..lo + BLOCK {
            let c = match char::from_u32(u) {
                Some(c) => c,
                None => continue,
            };
            sink.count("states", 1);
            let exp = [
                chars::is_char(c),
                chars::is_name_start(c),
                chars::is_name_char(c),
                chars::is_pubid_char(c),
                chars::is_enc_name_char(c),
            ];
            let names = ["is_char", "is_name_start_char", "is_name_char", "is_pubid_char", "is_enc_name"];
            let got = guard(|| {
                [
                    xml_nom::xmlchar::is_char(c),
                    xml_nom::xmlchar::is_name_start_char(c),
                    xml_nom::xmlchar::is_name_char(c),
                    xml_nom::xmlchar::is_pubid_char(c),
                    xml_nom::xmlchar::is_enc_name(c),
                ]
            });
            sink.count("transitions", 5);
            if exp.iter().any(|b| *b) {
                sink.count("nontrivial", 1);
            }
            match got {
                Ok(got) => {
                    sink.count("validated", 5);
                    for k in 0..5 {
                        if got[k] != exp[k] {
                            sink.finding(Finding {
                                sig: format!("class-mismatch/{}/U+{:04X}", names[k], u),
                                what: format!("{}(U+{:04X}) disagrees with XML 1.0 5th ed.", names[k], u),
                                case: format!("{}(U+{:04X})", names[k], u),
                                expected: exp[k].to_string(),
                                observed: got[k].to_string(),
                            });
                        }
                    }
                }
                Err(m) => sink.finding(Finding {
                    sig: format!("panic/{}", panic_site(&m)),
                    what: "character predicate panicked".into(),
                    case: format!("U+{:04X}", u),
                    expected: "bool".into(),
                    observed: m,
                }),
            }
        }
    }
}

// ---------------------------------------------------------------------------------------------

pub const ALPHABET: &[char] = &[
    'a', 'Z', '_', ':', '1', '-', '.', ' ', '\u{B7}', '\u{D7}', '\u{300}', '\u{37E}', '\u{2BFF}', '\u{2C00}', '\u{2EFF}',
    '\u{2FEF}', '\u{2FF0}', '\u{3000}', '\u{3001}', '\u{D7FF}', '\u{E000}', '\u{F900}', '\u{FDCF}', '\u{FDD0}',
    '\u{FDF0}', '\u{FFFD}', '\u{10000}', '\u{EFFFF}', '\u{F0000}', '\u{203F}',
];

const CONTEXTS: &[&str] = &["element", "endtag", "attribute", "pitarget", "entity", "notation", "doctype", "xpath"];

/// tails after a fixed head (xmlns, xml, p:): one representative per class that a look-ahead could confuse
pub const TAIL_ALPHABET: &[char] = &['a', 'x', ':', '1', '-', '.', '\u{B7}', '\u{300}', '\u{203F}', ' ', 's', '_'];

/// reserved-target stage: every case folding of x, m, l plus a neutral letter and a hyphen
pub const PI_ALPHABET: &[char] = &['x', 'X', 'm', 'M', 'l', 'L', 'a', '-'];

struct Names {
    /// fixed beginning of every candidate (empty for the plain stages); with a head the tail may be empty
    head: &'static str,
    alphabet: &'static [char],
    contexts: &'static [&'static str],
    maxlen: u32,
    n: u64,
}

impl Names {
    fn with(alphabet: &'static [char], maxlen: u32, contexts: &'static [&'static str]) -> Names {
        let a = alphabet.len() as u64;
        let mut n = 0;
        let mut p = 1;
        for _ in 0..maxlen {
            p *= a;
            n += p;
        }
        Names { head: "", alphabet, contexts, maxlen, n }
    }
    fn with_head(head: &'static str, alphabet: &'static [char], maxlen: u32, contexts: &'static [&'static str]) -> Names {
        let mut n = Names::with(alphabet, maxlen, contexts);
        n.head = head;
        n.n += 1; // the head alone
        n
    }
    fn candidate(&self, idx: u64) -> String {
        if self.head.is_empty() {
            return self.tail(idx);
        }
        if idx == 0 {
            return self.head.to_string();
        }
        format!("{}{}", self.head, self.tail(idx - 1))
    }
    fn tail(&self, mut idx: u64) -> String {
        let a = self.alphabet.len() as u64;
        let mut len = 1;
        let mut p = a;
        while idx >= p {
            idx -= p;
            p *= a;
            len += 1;
        }
        let mut s = vec![];
        for _ in 0..len {
            s.push(self.alphabet[(idx % a) as usize]);
            idx /= a;
        }
        s.reverse();
        s.into_iter().collect()
    }
}

fn xml_equal_ci(s: &str) -> bool {
    s.eq_ignore_ascii_case("xml")
}

/// (must_accept, may_accept) per context
fn reference(ctx: &str, s: &str) -> (bool, bool) {
    match ctx {
        "element" | "endtag" | "attribute" | "xpath" => {
            let q = chars::is_qname(s);
            // Namespaces in XML reserves the prefixes xmlns and xml: using xmlns as an element prefix,
            // declaring xmlns:xmlns or re-binding xmlns:xml are namespace errors an implementation may
            // (not must) report
            let (p, l) = chars::split_qname(s);
            let ns_reserved = match (ctx, p) {
                ("attribute", Some("xmlns")) => l == "xmlns" || l == "xml",
                (_, Some("xmlns")) => true,
                _ => false,
            };
            (q && !ns_reserved, q)
        }
        "pitarget" => (
            chars::is_ncname(s) && !xml_equal_ci(s),
            chars::is_name(s) && !xml_equal_ci(s),
        ),
        "entity" | "notation" => (chars::is_ncname(s), chars::is_name(s)),
        "doctype" => (chars::is_qname(s), chars::is_name(s)),
        _ => unreachable!(),
    }
}

fn document_for(ctx: &str, s: &str) -> String {
    match ctx {
        "element" => format!("<{}/>", s),
        "endtag" => format!("<{}></{}>", s, s),
        "attribute" => format!("<r {}='v'/>", s),
        "pitarget" => format!("<?{}?><r/>", s),
        "entity" => format!("<!DOCTYPE r [<!ENTITY {} 'v'>]><r>&{};</r>", s, s),
        "notation" => format!("<!DOCTYPE r [<!NOTATION {} SYSTEM 's'>]><r/>", s),
        "doctype" => format!("<!DOCTYPE {}><r/>", s),
        _ => unreachable!(),
    }
}

/// Does the implementation accept `s` as a name in this position, reporting exactly `s`?
fn impl_accepts(ctx: &str, s: &str) -> Result<bool, String> {
    if ctx == "xpath" {
        let e = format!("child::{}", s);
        return guard(|| match xml_xpath::expr::parse(&e) {
            Ok((rest, ast)) => {
                if !rest.is_empty() {
                    return false;
                }
                let (p, l) = chars::split_qname(s);
                let want = match p {
                    Some(p) => xml_nom::model::QName::Prefixed(xml_nom::model::PrefixedName { prefix: p, local_part: l }),
                    None => xml_nom::model::QName::Unprefixed(l),
                };
                format!("{:?}", ast).contains(&format!("{:?}", want))
            }
            Err(_) => false,
        });
    }
    let text = document_for(ctx, s);
    guard(|| {
        let (p, doc) = obs::parse_info(&text);
        if p != obs::Parsed::Complete {
            return false;
        }
        let doc = doc.unwrap();
        let d = doc.borrow();
        match ctx {
            "element" | "endtag" => match d.document_element() {
                Ok(e) => {
                    let e = e.borrow();
                    obs::qn(e.prefix(), e.local_name()) == s
                }
                Err(_) => false,
            },
            "attribute" => match d.document_element() {
                Ok(e) => {
                    let e = e.borrow();
                    let found = e.attributes().iter().chain(e.namespace_attributes().iter()).any(|a| {
                        let a = a.borrow();
                        obs::qn(a.prefix(), a.local_name()) == s && a.normalized_value().map(|v| v == "v").unwrap_or(false)
                    });
                    found
                }
                Err(_) => false,
            },
            "pitarget" => d.children().iter().any(|c| c.as_pi().map(|p| p.borrow().target() == s).unwrap_or(false)),
            "entity" => match d.document_element() {
                Ok(e) => {
                    let e = e.borrow();
                    let found = e
                        .children()
                        .iter()
                        .any(|c| c.as_unexpanded().map(|u| u.borrow().name() == s).unwrap_or(false));
                    found
                }
                Err(_) => false,
            },
            "notation" => d
                .notations()
                .map(|n| n.iter().any(|n| n.borrow().name() == s))
                .unwrap_or(false),
            "doctype" => d
                .document_declaration()
                .map(|t| {
                    let t = t.borrow();
                    obs::qn(t.prefix(), t.local_name()) == s
                })
                .unwrap_or(false),
            _ => unreachable!(),
        }
    })
}

impl Space for Names {
    fn len(&self) -> u64 {
        self.n
    }
    fn describe(&self, idx: u64) -> String {
        let s = self.candidate(idx);
        format!(
            "candidate name {} (maxlen {}) in positions {:?}, e.g. {}",
            obs::q(&s),
            self.maxlen,
            self.contexts,
            obs::q(&document_for("entity", &s))
        )
    }
    fn run(&self, idx: u64, sink: &mut Sink) {
        let s = self.candidate(idx);
        sink.count("states", 1);
        if idx == 40 {
            sink.sample(|| self.describe(idx));
        }
        let mut any = false;
        for ctx in self.contexts {
            let (must, may) = reference(ctx, &s);
            any |= must;
            sink.count("transitions", 1);
            match impl_accepts(ctx, &s) {
                Ok(acc) => {
                    sink.count("validated", 1);
                    sink.note("outcomes", &format!("{}:{}", ctx, if acc { "accept" } else { "reject" }));
                    if acc && !may {
                        sink.finding(Finding {
                            sig: format!("accepts-non-name/{}/{}", ctx, why_not(is_qname_ctx(ctx), &s)),
                            what: format!("{} position accepts a string that is not a {}", ctx, if is_qname_ctx(ctx) { "QName" } else { "Name" }),
                            case: format!("name {} in {}", obs::q(&s), if *ctx == "xpath" { format!("child::{}", s) } else { document_for(ctx, &s) }),
                            expected: "rejected (error, unconsumed input, or a different name reported)".into(),
                            observed: "accepted with exactly this name".into(),
                        });
                    } else if !acc && !may && *ctx != "xpath" && !s.is_empty() && s.chars().all(chars::is_name_char) && guard(|| obs::parse_info(&document_for(ctx, &s)).0 == obs::Parsed::Complete).unwrap_or(false) {
                        // every character is a name character, so nothing can end the name early: a document that is
                        // accepted has taken part of the string for the name and swallowed the rest
                        sink.finding(Finding {
                            sig: format!("accepts-document-with-non-name/{}/{}", ctx, why_not(is_qname_ctx(ctx), &s)),
                            what: format!("{} position: the document is accepted although the string is not a {}, under another name", ctx, if is_qname_ctx(ctx) { "QName" } else { "Name" }),
                            case: format!("name {} in {}", obs::q(&s), document_for(ctx, &s)),
                            expected: "rejected".into(),
                            observed: "accepted completely, reporting a different name".into(),
                        });
                    } else if !acc && must {
                        sink.finding(Finding {
                            sig: format!("rejects-name/{}/{}", ctx, shape(&s)),
                            what: format!("{} position rejects a valid name", ctx),
                            case: format!("name {} in {}", obs::q(&s), if *ctx == "xpath" { format!("child::{}", s) } else { document_for(ctx, &s) }),
                            expected: "accepted with exactly this name".into(),
                            observed: "rejected".into(),
                        });
                    }
                }
                Err(m) => sink.finding(Finding {
                    sig: format!("panic/{}/{}", ctx, panic_site(&m)),
                    what: "panic while parsing a candidate name".into(),
                    case: format!("name {} in {}", obs::q(&s), ctx),
                    expected: "accept or reject".into(),
                    observed: m,
                }),
            }
        }
        if any {
            sink.count("nontrivial", 1);
        }
    }
}

fn is_qname_ctx(ctx: &str) -> bool {
    matches!(ctx, "element" | "endtag" | "attribute" | "xpath")
}

/// Why a string is not a name (the feature component of a signature).
pub fn why_not(qname_ctx: bool, s: &str) -> &'static str {
    if s.is_empty() {
        return "empty";
    }
    if !s.chars().all(chars::is_name_char) {
        return "non-name-char";
    }
    if qname_ctx {
        let colons = s.matches(':').count();
        if colons > 1 {
            return "multi-colon";
        }
        if s.starts_with(':') || s.ends_with(':') {
            return "empty-part";
        }
        if s.split(':').any(|p| !p.starts_with(chars::is_name_start)) {
            return "part-starts-with-namechar";
        }
        "other"
    } else {
        if !s.starts_with(chars::is_name_start) {
            return "starts-with-namechar";
        }
        if xml_equal_ci(s) {
            return "reserved-xml";
        }
        "other"
    }
}

/// Shape of a candidate: one class letter per character (S start char, N name-only char,
/// C colon, X other), so that findings group by *why* a string is (not) a name.
pub fn shape(s: &str) -> String {
    let mut o = String::new();
    for c in s.chars() {
        o.push(if c == ':' {
            'C'
        } else if chars::is_name_start(c) {
            'S'
        } else if chars::is_name_char(c) {
            'N'
        } else if chars::is_space(c) {
            '_'
        } else {
            'X'
        });
    }
    o
}
