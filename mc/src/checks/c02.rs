//! C02 — ill-formed input is never reported as a completely parsed document.

use crate::engine::{guard, panic_site, Check, Finding, Meta, Sink, Space, Tier};
use crate::model::edits::*;
use crate::model::wf::{self, Verdict};
use crate::obs::{self, Parsed};

pub struct C02C;
pub static C02: C02C = C02C;

impl Check for C02C {
    fn id(&self) -> &'static str {
        "C02"
    }
    fn stages(&self, tier: Tier) -> Vec<String> {
        match tier {
            Tier::Quick => vec!["catalogue".into(), "edit1".into()],
            Tier::Thorough => vec!["catalogue".into(), "edit1".into(), "catalogue-edit1".into(), "edit2".into()],
        }
    }
    fn prepare(&self, stage: &str, _tier: Tier, _input: &[String]) -> Box<dyn Space> {
        match stage {
            "catalogue" => Box::new(Catalogue { cases: catalogue() }),
            "edit1" => Box::new(Edit1::new(seeds(), SIGMA)),
            // the neighbourhood of the semantic violations themselves: one more edit must not make one acceptable
            // unless the reference agrees
            "catalogue-edit1" => Box::new(Edit1::new(catalogue().into_iter().map(|c| c.0).collect(), SIGMA)),
            _ => {
                let mut s = seeds();
                s.sort_by_key(|x| x.len());
                s.truncate(45);
                Box::new(Edit2 { inner: Edit1::new(s, SIGMA2) })
            }
        }
    }
    fn meta(&self) -> Meta {
        Meta {
            rule: "stage edit1: ~60 seed documents (one per production / construct) x every string at token-edit distance 1 (delete, duplicate, transpose, replace by / insert each of 48 tokens incl. markup delimiters, controls, U+FFFE/U+FFFF); stage edit2 (thorough): distance 2 on the 12 smallest seeds over 20 structural tokens; stage catalogue: hand-listed semantic violations (entity cycles, '<' through entities, unparsed/external references, non-Char references, duplicate attributes, misplaced declarations, reserved PI targets in every case folding). Each string is classified by the independent reference recogniser; only strings it finds ill-formed are judged (non-trivial = ill-formed); violation iff the implementation returns Ok with empty rest.",
            bounds_quick: "edit distance 1 over 48 tokens on ~60 seeds; catalogue",
            bounds_thorough: "edit distance 1 (all seeds, and every catalogue entry) and 2 (45 smallest seeds, 20 tokens); catalogue",
            assumptions: &[
                "reference recogniser mc/src/model/wf.rs decides XML 1.0 (5th ed.) well-formedness for documents without parameter entities; documents using PEs are not judged",
                "namespace constraints are not demanded (the property lists XML 1.0 constraints only)",
            ],
            unbounded_total: false,
        }
    }
}

fn judge(text: &str, how: &str, sink: &mut Sink) {
    sink.count("states", 1);
    match wf::recognise(text) {
        Verdict::WellFormed(_) => {
            sink.count("wellformed-neighbours", 1);
        }
        Verdict::Undecided(_) => {
            sink.count("undecided", 1);
        }
        Verdict::IllFormed(err) => {
            sink.count("nontrivial", 1);
            sink.count("transitions", 2);
            let r = guard(|| {
                let (p1, _) = obs::parse_dom(text, false);
                let (p2, _) = obs::parse_info(text);
                (p1, p2)
            });
            match r {
                Ok((p1, p2)) => {
                    sink.count("validated", 1);
                    let cls = |p: &Parsed| match p {
                        Parsed::Complete => "accepted",
                        Parsed::Rest(_) => "rest",
                        Parsed::Err(_) => "error",
                    };
                    sink.note("outcomes", &format!("{}:{}", err.site, cls(&p1)));
                    if p1 == Parsed::Complete || p2 == Parsed::Complete {
                        sink.finding(Finding {
                            sig: if err.in_entity {
                                format!("accepted-illformed/in-entity-replacement-text/{}", err.site)
                            } else {
                                format!("accepted-illformed/{}/{}", err.site, msg_class(&err.msg))
                            },
                            what: format!("ill-formed input ({}: {}) is returned as a completely parsed document", err.site, err.msg),
                            case: format!("{}\n({})", text, how),
                            expected: format!("Err or non-empty rest; reference: {} at char {} ({})", err.site, err.pos, err.msg),
                            observed: "Ok with empty rest".into(),
                        });
                    }
                }
                Err(m) => {
                    // a panic is not an acceptance; totality is C03's concern, but report it here
                    // too because the caller cannot test anything
                    sink.finding(Finding {
                        sig: format!("panic/{}", panic_site(&m)),
                        what: "panic instead of an error for ill-formed input".into(),
                        case: format!("{}\n({})", text, how),
                        expected: "Err or non-empty rest".into(),
                        observed: m,
                    });
                }
            }
        }
    }
}

/// the reference's message with names/digits folded (messages carry offending names)
fn msg_class(m: &str) -> String {
    let known = [
        "'--' inside comment",
        "illegal character",
        "unterminated",
        "white space required",
        "reserved target",
        "character reference to a non-Char",
        "'<' in attribute value",
        "']]>' in character data",
        "content after the root element",
        "root element expected",
        "quote expected",
        "Name expected",
        "digits expected",
        "expected",
    ];
    for k in known {
        if m.contains(k) {
            return k.replace(' ', "-");
        }
    }
    "other".into()
}

// ---------------------------------------------------------------------------------------------

pub struct Edit1 {
    pub seeds: Vec<Vec<String>>,
    pub sigma: &'static [&'static str],
    offsets: Vec<u64>,
    total: u64,
}

impl Edit1 {
    pub fn new(seeds: Vec<String>, sigma: &'static [&'static str]) -> Edit1 {
        let toks: Vec<Vec<String>> = seeds.iter().map(|s| tokenize(s)).collect();
        let mut offsets = vec![];
        let mut total = 0;
        for t in &toks {
            offsets.push(total);
            total += edit_count(t.len(), sigma.len());
        }
        Edit1 { seeds: toks, sigma, offsets, total }
    }
    pub fn locate(&self, idx: u64) -> (usize, u64) {
        let mut s = self.seeds.len() - 1;
        for (i, o) in self.offsets.iter().enumerate() {
            if *o > idx {
                s = i - 1;
                break;
            }
        }
        (s, idx - self.offsets[s])
    }
    pub fn case(&self, idx: u64) -> (String, String) {
        let (s, k) = self.locate(idx);
        let (toks, how) = nth_edit(&self.seeds[s], self.sigma, k);
        (join(&toks), format!("seed {} {}; {}", s, obs::q(&join(&self.seeds[s])), how))
    }
    pub fn total(&self) -> u64 {
        self.total
    }
}

impl Space for Edit1 {
    fn len(&self) -> u64 {
        self.total
    }
    fn describe(&self, idx: u64) -> String {
        let (t, how) = self.case(idx);
        format!("{}\n({})", t, how)
    }
    fn run(&self, idx: u64, sink: &mut Sink) {
        let (t, how) = self.case(idx);
        if idx % 5003 == 7 {
            sink.sample(|| format!("{}  ({})", t, how));
        }
        judge(&t, &how, sink);
    }
}

struct Edit2 {
    inner: Edit1,
}

impl Space for Edit2 {
    fn len(&self) -> u64 {
        self.inner.total
    }
    fn describe(&self, idx: u64) -> String {
        let (t, how) = self.inner.case(idx);
        format!("every second edit of: {}\n({})", t, how)
    }
    fn run(&self, idx: u64, sink: &mut Sink) {
        let (s, k) = self.inner.locate(idx);
        let (toks, how) = nth_edit(&self.inner.seeds[s], self.inner.sigma, k);
        let n2 = edit_count(toks.len(), self.inner.sigma.len());
        for k2 in 0..n2 {
            let (t2, how2) = nth_edit(&toks, self.inner.sigma, k2);
            let text = join(&t2);
            judge(&text, &format!("seed {}; {}; then {}", s, how, how2), sink);
        }
    }
}

// ---------------------------------------------------------------------------------------------

struct Catalogue {
    cases: Vec<(String, &'static str)>,
}

pub fn catalogue() -> Vec<(String, &'static str)> {
    let mut v: Vec<(String, &'static str)> = vec![];
    let mut add = |s: &str, why: &'static str| v.push((s.to_string(), why));
    // entity cycles of length 1..3, referenced in content and in attribute values
    add("<!DOCTYPE r [<!ENTITY a \"&a;\">]><r>&a;</r>", "cycle-1 content");
    add("<!DOCTYPE r [<!ENTITY a \"&b;\"><!ENTITY b \"&a;\">]><r>&a;</r>", "cycle-2 content");
    add("<!DOCTYPE r [<!ENTITY a \"&b;\"><!ENTITY b \"&c;\"><!ENTITY c \"x&a;\">]><r>&a;</r>", "cycle-3 content");
    add("<!DOCTYPE r [<!ENTITY a \"&a;\">]><r x=\"&a;\"/>", "cycle-1 attribute");
    add("<!DOCTYPE r [<!ENTITY a \"&b;\"><!ENTITY b \"&a;\">]><r x='&b;'/>", "cycle-2 attribute");
    // '<' reached through an entity in an attribute value
    add("<!DOCTYPE r [<!ENTITY a \"&#60;\">]><r x=\"&a;\"/>", "lt via charref entity in attribute");
    add("<!DOCTYPE r [<!ENTITY a \"<b/>\">]><r x=\"&a;\"/>", "markup entity in attribute");
    add("<!DOCTYPE r [<!ENTITY a \"&b;\"><!ENTITY b \"x<y\">]><r x=\"&a;\"/>", "lt via nested entity in attribute");
    // the same entity is legal in content and illegal in an attribute value: every order of use,
    // directly and through another entity (a verdict reached for one context must not be reused
    // for the other)
    for (decl, what) in [
        ("<!ENTITY e '<b/>'>", "markup entity"),
        ("<!ENTITY e SYSTEM 'e.xml'>", "external entity"),
        ("<!ENTITY e 'x<!--c-->y'>", "entity holding a comment"),
    ] {
        let why: &'static str = Box::leak(format!("{} used in content and in an attribute value", what).into_boxed_str());
        for body in [
            "<r><x>&e;</x><y a='&e;'/></r>",
            "<r><y a='&e;'/><x>&e;</x></r>",
            "<r a='&e;'>&e;</r>",
            "<r>&e;<y a='&e;'/></r>",
            "<r><x>&e;</x><y a='&f;'/></r>",
            "<r><x>&f;</x><y a='&e;'/></r>",
            "<r><x>&f;</x><x>&e;</x><y a='&f;'/></r>",
        ] {
            v.push((format!("<!DOCTYPE r [{}<!ENTITY f '&e;'>]>{}", decl, body), why));
        }
    }
    let mut add = |s: &str, why: &'static str| v.push((s.to_string(), why));
    // references to unparsed / external entities
    add("<!DOCTYPE r [<!NOTATION n SYSTEM 's'><!ENTITY u SYSTEM 'u' NDATA n>]><r>&u;</r>", "unparsed entity in content");
    add("<!DOCTYPE r [<!NOTATION n SYSTEM 's'><!ENTITY u SYSTEM 'u' NDATA n>]><r x='&u;'/>", "unparsed entity in attribute");
    add("<!DOCTYPE r [<!ENTITY x SYSTEM 'x.xml'>]><r a='&x;'/>", "external entity in attribute");
    // undeclared entities
    add("<r>&e;</r>", "undeclared entity, no DTD");
    add("<r a='&e;'/>", "undeclared entity in attribute, no DTD");
    add("<!DOCTYPE r [<!ENTITY a 'v'>]><r>&b;</r>", "undeclared entity with DTD");
    add("<!DOCTYPE r [<!ENTITY a '&b;'>]><r>&a;</r>", "undeclared entity inside entity value");
    add("<!DOCTYPE r [<!ATTLIST r a CDATA '&e;'><!ENTITY e 'v'>]><r/>", "entity used in default before its declaration");
    // entity replacement text that is not content
    add("<!DOCTYPE r [<!ENTITY a '<b>'>]><r>&a;</r>", "unbalanced markup in entity");
    add("<!DOCTYPE r [<!ENTITY a '&#38;'>]><r>&a;</r>", "bare ampersand in replacement text");
    add("<!DOCTYPE r [<!ENTITY a '&#60;'>]><r>&a;</r>", "bare lt in replacement text");
    // character references to every non-Char class
    for cp in ["0", "1", "8", "11", "12", "14", "31", "55296", "57343", "65534", "65535", "1114112", "99999999999"] {
        v.push((format!("<r>&#{};</r>", cp), "char ref to non-Char (content)"));
        v.push((format!("<r a='&#{};'/>", cp), "char ref to non-Char (attribute)"));
    }
    for cp in ["0", "B", "D800", "DFFF", "FFFE", "FFFF", "110000"] {
        v.push((format!("<r>&#x{};</r>", cp), "hex char ref to non-Char"));
        v.push((format!("<!DOCTYPE r [<!ENTITY e '&#x{};'>]><r/>", cp), "hex char ref to non-Char in entity value"));
    }
    // a declaration that is not binding (the entity, or the attribute, was declared before) must still be well-formed:
    // the ill-formed value hides behind an earlier declaration of the same name
    for bad in ["&#0;", "&#xFFFE;", "&#xD800;", "&#x110000;", "&#55296;", "%p;", "a%p;b", "&", "&#;", "&e", "<"] {
        for (first, what) in [("<!ENTITY e 'a'>", "entity"), ("<!ENTITY e SYSTEM 's'>", "external entity")] {
            v.push((format!("<!DOCTYPE r [{}<!ENTITY e '{}'>]><r/>", first, bad), if what == "entity" { "ill-formed value in a redeclared entity" } else { "ill-formed value in an entity redeclared after an external one" }));
            v.push((format!("<!DOCTYPE r [{}<!ENTITY e '{}'>]><r>&e;</r>", first, bad), "ill-formed value in a redeclared entity that is referenced"));
        }
        if bad != "%p;" && bad != "a%p;b" {
            v.push((format!("<!DOCTYPE r [<!ATTLIST r a CDATA 'v'><!ATTLIST r a CDATA '{}'>]><r/>", bad), "ill-formed default in a repeated attribute definition"));
            v.push((format!("<!DOCTYPE r [<!ATTLIST r a CDATA 'v' a CDATA '{}'>]><r/>", bad), "ill-formed default in a repeated attribute definition of one ATTLIST"));
        }
    }
    let mut add = |s: &str, why: &'static str| v.push((s.to_string(), why));
    add("<r>&#;</r>", "empty char ref");
    add("<r>&#x;</r>", "empty hex char ref");
    add("<r>&#xG;</r>", "bad hex digit");
    add("<r>&#1a;</r>", "bad decimal digit");
    add("<r>&#X41;</r>", "upper-case X");
    // duplicate attributes with others in between / different quoting / prefixed
    add("<r a='1' b='2' a='3'/>", "duplicate attribute with one in between");
    add("<r a=\"1\" a='1'/>", "duplicate attribute, same value");
    add("<r p:a='1' p:a='2' xmlns:p='u'/>", "duplicate prefixed attribute");
    add("<r xmlns='u' xmlns='v'/>", "duplicate default namespace declaration");
    add("<r xmlns:p='u' xmlns:p='u'/>", "duplicate namespace declaration");
    add("<r><a x='1' y='2' z='3' x='4'/></r>", "duplicate attribute on child");
    add("<e xmlns:p='u' p:x='1' x='2' p:x='3'/>", "duplicate prefixed attribute, same local name unprefixed in between");
    add("<e xmlns:p='u' x='1' p:x='2' x='3'/>", "duplicate attribute, same local name prefixed in between");
    add("<e xmlns:p='u' xmlns:q='u' p:x='1' q:x='2' p:x='3'/>", "duplicate prefixed attribute, other prefix in between");
    add("<e xmlns:x='u' x='2' xmlns:x='v'/>", "duplicate namespace declaration, attribute named like the prefix in between");
    add("<e xmlns:x='u' xmlns='a' x:xmlns='b' xmlns='c'/>", "duplicate default namespace declaration, x:xmlns in between");
    add("<e a='1' b='2' a='3' b='4'/>", "two interleaved duplicates");
    add("<?xml version='1.0' standalone='yes\"?><a/>", "standalone literal closed by the other quote");
    add("<?xml version='1.0\" standalone='yes'?><a/>", "version literal closed by the other quote");
    add("<?xml version='1.0' encoding=\"UTF-8'?><a/>", "encoding literal closed by the other quote");
    add("<a x='1\"/>", "attribute value closed by the other quote");
    add("<!DOCTYPE a SYSTEM 's\"><a/>", "system literal closed by the other quote");
    add("<!DOCTYPE a [<!ENTITY e 'v\">]><a/>", "entity value closed by the other quote");
    // tags
    add("<r></s>", "mismatched end tag");
    add("<r><a></r></a>", "overlapping tags");
    add("<r><a></b></r>", "mismatched inner end tag");
    add("<p:r></q:r>", "mismatched prefix");
    add("<p:r></r>", "prefix dropped in end tag");
    add("<r></R>", "case mismatch in end tag");
    add("<r><a>", "unclosed tags");
    add("<r>", "unclosed root");
    add("</r>", "end tag only");
    add("<r/><r/>", "two roots");
    add("<r/><a/>", "second root");
    add("<r/>t", "text after root");
    add("t<r/>", "text before root");
    add("<r/>&amp;", "reference after root");
    add("<r/><![CDATA[x]]>", "CDATA after root");
    add("", "empty input");
    add(" ", "white space only");
    add("<!--c-->", "comment only");
    add("<?p?>", "PI only");
    add("<!DOCTYPE r>", "doctype only");
    // XML declaration
    add(" <?xml version='1.0'?><r/>", "XML declaration after white space");
    add("<!--c--><?xml version='1.0'?><r/>", "XML declaration after comment");
    add("<r><?xml version='1.0'?></r>", "XML declaration in content");
    add("<r/><?xml version='1.0'?>", "XML declaration after root");
    add("<?xml?><r/>", "XML declaration without version");
    add("<?xml encoding='UTF-8'?><r/>", "XML declaration without version (encoding)");
    add("<?xml version='1.0' standalone='yes' encoding='UTF-8'?><r/>", "XML declaration fields out of order");
    add("<?xml version='1.0' standalone='maybe'?><r/>", "bad standalone value");
    add("<?xml version='2.0'?><r/>", "bad version number");
    add("<?xml version='1.'?><r/>", "version number without digits");
    add("<?xml version='1.0' encoding='1x'?><r/>", "bad encoding name");
    add("<?xml version='1.0' encoding=''?><r/>", "empty encoding name");
    add("<?xml version='1.0'encoding='UTF-8'?><r/>", "missing white space before encoding");
    add("<?xml version=\"1.0'?><r/>", "mismatched quotes in XML declaration");
    add("<?XML version='1.0'?><r/>", "upper-case XML declaration");
    // reserved PI targets in every case folding
    for t in ["xml", "xmL", "xMl", "xML", "Xml", "XmL", "XMl", "XML"] {
        v.push((format!("<r><?{} x?></r>", t), "reserved PI target in content"));
        v.push((format!("<r/><?{}?>", t), "reserved PI target after root"));
        v.push((format!("<!DOCTYPE r [<?{} d?>]><r/>", t), "reserved PI target in DTD"));
    }
    let mut add = |s: &str, why: &'static str| v.push((s.to_string(), why));
    // comments, CDATA, PIs
    add("<r><!-- a -- b --></r>", "double hyphen in comment");
    add("<r><!--a---></r>", "comment ending in three hyphens");
    add("<r><!---></r>", "short comment");
    add("<r><!--a</r>", "unterminated comment");
    add("<!-- -- --><r/>", "double hyphen in prolog comment");
    add("<r>a]]>b</r>", "CDATA end in character data");
    add("<r>]]></r>", "bare CDATA end");
    add("<r><![CDATA[x]]</r>", "unterminated CDATA");
    add("<r><![cdata[x]]></r>", "lower-case CDATA keyword");
    add("<r><?p</r>", "unterminated PI");
    add("<r><? p?></r>", "PI without target");
    add("<r><?p?x?></r>", "PI target followed by junk");
    // attributes
    add("<r a=1/>", "unquoted attribute value");
    add("<r a/>", "attribute without value");
    add("<r a='1'b='2'/>", "no white space between attributes");
    add("<r a='<'/>", "lt in attribute value");
    add("<r a='&'/>", "bare ampersand in attribute value");
    add("<r a='&amp'/>", "unterminated reference in attribute value");
    add("<r a=\"1'/>", "mismatched attribute quotes");
    add("<r a='1\"/>", "mismatched attribute quotes 2");
    add("<r 'a'='1'/>", "quoted attribute name");
    add("<r =''/>", "missing attribute name");
    // content
    add("<r>a&b</r>", "bare ampersand in content");
    add("<r>a<b</r>", "bare lt in content");
    add("<r>&amp</r>", "unterminated reference");
    add("<r>& amp;</r>", "space in reference");
    add("<r>\u{0}</r>", "NUL in content");
    add("<r>\u{8}</r>", "control in content");
    add("<r>\u{fffe}</r>", "U+FFFE in content");
    add("<r a='\u{ffff}'/>", "U+FFFF in attribute");
    add("<r><!--\u{1}--></r>", "control in comment");
    add("<r><?p \u{b}?></r>", "control in PI");
    add("<r><![CDATA[\u{c}]]></r>", "control in CDATA");
    add("<\u{fffe}/>", "non-character as name");
    // names
    add("<1r/>", "digit-first element name");
    add("<-r/>", "hyphen-first element name");
    add("<r .a='1'/>", "dot-first attribute name");
    add("<r><?1p?></r>", "digit-first PI target");
    add("<r>&1;</r>", "digit-first entity reference");
    add("< r/>", "space before name");
    add("<r></ r>", "space in end tag");
    add("<r/ >", "space inside empty tag close");
    // DOCTYPE
    add("<!DOCTYPE><r/>", "doctype without name");
    add("<!DOCTYPEr><r/>", "doctype without space");
    add("<!DOCTYPE r SYSTEM><r/>", "SYSTEM without literal");
    add("<!DOCTYPE r PUBLIC 'p'><r/>", "PUBLIC without system literal");
    add("<!DOCTYPE r PUBLIC '{' 's'><r/>", "illegal pubid character");
    add("<!DOCTYPE r [<!ENTITY e>]><r/>", "entity without definition");
    add("<!DOCTYPE r [<!ENTITY e 'a\"b'c'>]><r/>", "junk after entity value");
    add("<!DOCTYPE r [<!ENTITY e 'a%b'>]><r/>", "percent in entity value");
    add("<!DOCTYPE r [<!ENTITY e 'a&b'>]><r/>", "bare ampersand in entity value");
    add("<!DOCTYPE r [<!ENTITY e SYSTEM 's' NDATA>]><r/>", "NDATA without name");
    add("<!DOCTYPE r [<!NOTATION n>]><r/>", "notation without id");
    add("<!DOCTYPE r [<!ATTLIST r a>]><r/>", "attdef without type");
    add("<!DOCTYPE r [<!ATTLIST r a CDATA>]><r/>", "attdef without default");
    add("<!DOCTYPE r [<!ATTLIST r a FOO #IMPLIED>]><r/>", "unknown attribute type");
    add("<!DOCTYPE r [<!ATTLIST r a CDATA #FIXED>]><r/>", "FIXED without value");
    add("<!DOCTYPE r [<!ATTLIST r a () #IMPLIED>]><r/>", "empty enumeration");
    add("<!DOCTYPE r [<!ATTLIST r a CDATA '<'>]><r/>", "lt in default value");
    add("<!DOCTYPE r [<!ELEMENT r>]><r/>", "element decl without content spec");
    add("<!DOCTYPE r [<!ELEMENT r (a,b|c)>]><r/>", "mixed separators in content model");
    add("<!DOCTYPE r [<!ELEMENT r ()>]><r/>", "empty group");
    add("<!DOCTYPE r [<!ELEMENT r (#PCDATA|a)>]><r/>", "mixed content without star");
    add("<!DOCTYPE r [<!ELEMENT r (a>]><r/>", "unclosed group");
    add("<!DOCTYPE r [<!ELEMENT r empty>]><r/>", "lower-case EMPTY");
    add("<!DOCTYPE r [<r/>]><r/>", "element in internal subset");
    add("<!DOCTYPE r [t]><r/>", "text in internal subset");
    add("<!DOCTYPE r [<![CDATA[x]]>]><r/>", "CDATA in internal subset");
    add("<!DOCTYPE r [<!ENTITY e 'v'>]", "doctype not closed");
    add("<!DOCTYPE r><!DOCTYPE r><r/>", "two doctypes");
    add("<r/><!DOCTYPE r>", "doctype after root");
    add("<r><!DOCTYPE r></r>", "doctype in content");
    v
}

impl Space for Catalogue {
    fn len(&self) -> u64 {
        self.cases.len() as u64
    }
    fn describe(&self, idx: u64) -> String {
        let (t, why) = &self.cases[idx as usize];
        format!("{}\n(catalogue: {})", t, why)
    }
    fn run(&self, idx: u64, sink: &mut Sink) {
        let (t, why) = &self.cases[idx as usize];
        // every catalogue entry must be ill-formed according to the reference; otherwise the
        // catalogue (not the implementation) is wrong
        match wf::recognise(t) {
            Verdict::IllFormed(_) => {}
            other => {
                sink.count("catalogue-entry-not-illformed", 1);
                sink.note("catalogue-entry-not-illformed", &format!("{} => {:?}", t, matches!(other, Verdict::WellFormed(_))));
                return;
            }
        }
        judge(t, &format!("catalogue: {}", why), sink);
    }
}
