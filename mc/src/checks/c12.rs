//! C12 — the DOM stays a tree: navigation views agree after any edit history.

use crate::checks::dombfs::*;
use crate::engine::{Check, Meta, Space, Tier};

pub struct C12C;
pub static C12: C12C = C12C;

pub const DOC_PLAIN: &str = "<r><a/><b/></r>";
pub const DOC_NESTED: &str = "<r><a><c/></a>t</r>";
pub const DOC_MIXED: &str = "<!--k--><r x=\"1\"><a/>t<?p d?></r><?q?>";
pub const DOC_DOCTYPE: &str = "<!DOCTYPE r><r><a/></r>";
pub const DOC_TWO_PI: &str = "<r><?p?><?q?><b/></r>";
pub const FOREIGN_EQUAL: &str = "<r><a/><b/></r>";
pub const FOREIGN_OTHER: &str = "<f><g/></f>";

pub fn initial_docs() -> Vec<InitialDoc> {
    vec![
        InitialDoc { text: DOC_PLAIN, foreign: Some(FOREIGN_OTHER), expanded: false },
        InitialDoc { text: DOC_NESTED, foreign: None, expanded: false },
        InitialDoc { text: DOC_MIXED, foreign: None, expanded: false },
        InitialDoc { text: DOC_DOCTYPE, foreign: None, expanded: false },
        InitialDoc { text: DOC_TWO_PI, foreign: None, expanded: false },
        InitialDoc { text: "<r/>", foreign: None, expanded: false },
        // the merged-text view used by xq / xe: runs of text, CDATA and references are one node
        InitialDoc { text: "<r>t<![CDATA[c]]>&amp;<a/>u</r>", foreign: None, expanded: true },
        InitialDoc { text: DOC_MIXED, foreign: None, expanded: true },
    ]
}

pub fn stages_for(depth: usize) -> Vec<String> {
    (0..depth).map(|d| format!("bfs{}", d)).collect()
}

pub fn structural_alphabet() -> Alphabet {
    Alphabet {
        structural: true,
        creations: true,
        attributes: true,
        split: true,
        set_value: false,
        max_creations: 1,
        names: &["n", "r"],
        values: &["v", "]]>"],
            chardata: &[],
            chardata_extra: 0,
            chardata_full: true,
            attach_only: false,
                attr_names: &[],
    }
}

impl Check for C12C {
    fn id(&self) -> &'static str {
        "C12"
    }
    fn stages(&self, tier: Tier) -> Vec<String> {
        stages_for(tier.pick(2, 4))
    }
    fn prepare(&self, stage: &str, tier: Tier, input: &[String]) -> Box<dyn Space> {
        let depth = tier.pick(2, 4);
        let docs = initial_docs();
        let frontier = if stage == "bfs0" { (0..docs.len()).map(|i| (i, vec![])).collect() } else { parse_frontier(input) };
        Box::new(DomBfs {
            prop: "C12",
            docs,
            alphabet: structural_alphabet(),
            monitors: Monitors { tree: true, spec: false, order: false, chardata: false, serial: false },
            frontier,
            expand: stage != format!("bfs{}", depth - 1),
            order_queries: &[],
            warm_queries: &[],
            max_depth: vec![],
        })
    }
    fn meta(&self) -> Meta {
        Meta {
            rule: "explicit-state breadth-first search over DOM call histories on the real xml_dom objects: a state is the history reaching it (re-executed from a fresh parse), de-duplicated by a canonical key (labelled forest of all live handles: kind, name, value, parent, child list, attribute map, owner; plus the rank vector of all order keys). Alphabet: append_child / insert_before / replace_child / remove_child with every receiver and every argument among all live handles (attached, detached, created, foreign, the document, attributes, text; reference argument: every child plus a non-child, the new child itself and a foreign node), the create_* factories, set/remove attribute (by name, by node, through the NamedNodeMap), split_text at every offset. After every transition (successful or failed) the tree invariants are evaluated on every live handle. Non-trivial transition = the call succeeded or changed the state.",
            bounds_quick: "8 initial documents (2 in the merged-text view), history depth 2, at most 1 created node per history",
            bounds_thorough: "8 initial documents (2 in the merged-text view), history depth 4, at most 1 created node per history",
            assumptions: &["node identity = (node kind, XmlNode::id()); handles are assigned in a deterministic walk order so that histories replay exactly"],
            unbounded_total: false,
        }
    }
}
