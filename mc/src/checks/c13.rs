//! C13 — DOM mutators: DOM Level 1 effect, specified exception class, atomic failure, no panic.

use crate::checks::c12::*;
use crate::checks::dombfs::*;
use crate::engine::{Check, Meta, Space, Tier};

pub struct C13C;
pub static C13: C13C = C13C;

pub fn c13_docs() -> Vec<InitialDoc> {
    vec![
        InitialDoc { text: DOC_PLAIN, foreign: Some(FOREIGN_EQUAL), expanded: false },
        InitialDoc { text: DOC_PLAIN, foreign: Some(FOREIGN_OTHER), expanded: false },
        InitialDoc { text: DOC_NESTED, foreign: None, expanded: false },
        InitialDoc { text: DOC_MIXED, foreign: None, expanded: false },
        InitialDoc { text: DOC_DOCTYPE, foreign: None, expanded: false },
        InitialDoc { text: "<r x=\"1\" y=\"2\"><a z=\"3\"/></r>", foreign: Some("<f w=\"4\"/>"), expanded: false },
        InitialDoc { text: "<r>t<![CDATA[c]]>u</r>", foreign: None, expanded: false },
        // merged-text view (what xq / xe work on): no reference tree, so only "no panic" and "a failed
        // call changes nothing" are judged here
        InitialDoc { text: "<r>t<![CDATA[c]]>&amp;<a/>u</r>", foreign: None, expanded: true },
        InitialDoc { text: DOC_MIXED, foreign: None, expanded: true },
        // an attribute defaulted from the DTD: its nodes belong to the declaration (no reference model: no panic, and a
        // failed call changes nothing)
        InitialDoc { text: "<!DOCTYPE r [<!ATTLIST a d CDATA \"v\">]><r><a/><a d=\"x\"/></r>", foreign: None, expanded: true },
    ]
}

impl Check for C13C {
    fn id(&self) -> &'static str {
        "C13"
    }
    fn stages(&self, tier: Tier) -> Vec<String> {
        stages_for(tier.pick(2, 3))
    }
    fn prepare(&self, stage: &str, tier: Tier, input: &[String]) -> Box<dyn Space> {
        let depth = tier.pick(2, 3);
        let docs = c13_docs();
        let frontier = if stage == "bfs0" { (0..docs.len()).map(|i| (i, vec![])).collect() } else { parse_frontier(input) };
        Box::new(DomBfs {
            prop: "C13",
            docs,
            alphabet: Alphabet {
                structural: true,
                creations: true,
                attributes: true,
                split: true,
                set_value: true,
                max_creations: 1,
                names: &["n", "x", "r", "a:b", "", "1a", "a b", "xml", "a:b:c", "n\r", "n\n"],
                values: &["v", "", "a b", "x<y", "a&b", "a]]>b"],
            chardata: &[],
            chardata_extra: 0,
            chardata_full: true,
            attach_only: false,
                attr_names: &[],
            },
            monitors: Monitors { tree: false, spec: true, order: false, chardata: false, serial: false },
            frontier,
            expand: stage != format!("bfs{}", depth - 1),
            order_queries: &[],
            warm_queries: &[],
            max_depth: vec![],
        })
    }
    fn meta(&self) -> Meta {
        Meta {
            rule: "the same explicit-state search as C12, with the reference DOM Level 1 tree (mc/src/model/dom.rs) applied in lock-step: for every (state, call) the model yields the set of acceptable successor trees or the set of exception classes DOM Level 1 allows (any member passes; where the Recommendation is silent both an unchanged success and any error pass). Checked per transition: no panic; outcome in the allowed set; on success the observed tree (all handles: kind, name, value, parent, child list, attribute map, owner) and the returned node equal an acceptable successor; on failure the complete observation (tree, order-key ranks, serialization) is identical to the one before the call; a node of a structurally equal but distinct document is refused. States where model and implementation disagree are reported and not expanded further. Names from {n, x, r (a look-alike of the document element), a:b, '', 1a, 'a b', xml, a:b:c}, values from {v, '', 'a b', x<y, a&b, a]]>b (a text an attribute may hold and an element may not)}.",
            bounds_quick: "7 initial documents (3 with a foreign document) + 2 in the merged-text view (panic and atomicity monitors only), history depth 2, at most 1 created node per history",
            bounds_thorough: "7 + 2 initial documents, history depth 3, at most 1 created node per history",
            assumptions: &[
                "implementation errors are mapped to DOM exception classes leniently (Info(InvalidHierarchy|InvalidType) = hierarchy request, Info(OufOfIndex) = not found, Info(InvalidData)|Parse = invalid character)",
                "methods the Rust API does not offer for a node kind (NodeMut on DocumentType, EntityReference, DocumentFragment) are not exercised",
            ],
            unbounded_total: false,
        }
    }
}
