//! C09 — core functions and operators compute the XPath 1.0 scalar semantics.

use crate::checks::xp::*;
use crate::engine::{panic_site, Check, Finding, Meta, Sink, Space, Tier};
use crate::model::adoc::*;
use crate::model::xpath::*;

pub struct C09C;
pub static C09: C09C = C09C;

pub const STRINGS: &[&str] = &[
    "", " ", "a", "abc", "abcabc", "é", "héllo", "日本", "a😀b", " 12 ", "12", "-1.5", "+1", "1e3", "1E3", ".5", "5.", "0x10", "Infinity", "-Infinity", "NaN", "a b  c",
    "\t\n x ", "1 2", "-", ".", "12abc", "bca",
    // white space that is not XML white space: never trimmed by number(), never collapsed by normalize-space()
    "\u{a0}12", "12\u{3000}", "\u{2003}1\u{2028}", "\u{85}7", "\u{c}7", "1\u{a0}2", " \u{a0} ",
];
pub const STRINGS_SMALL: &[&str] = &["", "a", "abcabc", "héllo", "a😀b", " 12 ", "b", "\u{a0}12"];

pub fn numbers() -> Vec<Expr> {
    let mut v: Vec<Expr> = vec![];
    for n in [
        "0", "1", "0.5", "1.5", "2.5", "3", "4", "9007199254740992", "1000000000000000000000", "0.0000001", "123456789012", ".5", "5.", "0.1", "2",
        // where x + 0.5 is not exact: the largest number below one half, odd integers above 2^52, the neighbours of a tie
        "0.49999999999999994", "4503599627370497", "0.5000000000000001", "2.4999999999999996", "1.4999999999999998",
    ] {
        v.push(num(n));
        if n != ".5" && n != "5." && n != "2" {
            v.push(Expr::Neg(Box::new(num(n))));
        }
    }
    v.push(bin(Op::Div, num("0"), num("0"))); // NaN
    v.push(bin(Op::Div, num("1"), num("0"))); // +Infinity
    v.push(bin(Op::Div, Expr::Neg(Box::new(num("1"))), num("0"))); // -Infinity
    v.push(bin(Op::Add, num("0.1"), num("0.2")));
    v.push(bin(Op::Div, num("1"), num("3")));
    v
}

pub fn numbers_small() -> Vec<Expr> {
    let mut v = vec![];
    for n in ["0", "1", "2", "1.5", "2.5", "0.5", "3", "100"] {
        v.push(num(n));
    }
    for n in ["0", "1", "0.5", "1.5", "2"] {
        v.push(Expr::Neg(Box::new(num(n))));
    }
    v.push(bin(Op::Div, num("0"), num("0")));
    v.push(bin(Op::Div, num("1"), num("0")));
    v.push(bin(Op::Div, Expr::Neg(Box::new(num("1"))), num("0")));
    v
}

pub fn cases(tier: Tier) -> Vec<Expr> {
    let strs: Vec<Expr> = STRINGS.iter().map(|s| lit(s)).collect();
    let strs_small: Vec<Expr> = STRINGS_SMALL.iter().map(|s| lit(s)).collect();
    let nums = numbers();
    let nums_small = numbers_small();
    let bools = vec![call("true", vec![]), call("false", vec![])];
    let mut all: Vec<Expr> = vec![];
    all.extend(strs.iter().cloned());
    all.extend(nums.iter().cloned());
    all.extend(bools.iter().cloned());
    let mut v: Vec<Expr> = vec![];
    // every value by itself (literal and number lexical forms, number -> string at the top level)
    v.extend(all.iter().cloned());
    // unary functions over every value
    for f in ["string", "number", "boolean", "not", "floor", "ceiling", "round", "string-length", "normalize-space"] {
        for a in &all {
            v.push(call(f, vec![a.clone()]));
        }
    }
    for a in &all {
        v.push(Expr::Neg(Box::new(a.clone())));
        // number -> string -> number and string -> number -> string round trips
        v.push(call("string", vec![call("number", vec![a.clone()])]));
        v.push(call("number", vec![call("string", vec![a.clone()])]));
    }
    // binary string functions
    for f in ["concat", "starts-with", "contains", "substring-before", "substring-after"] {
        for a in &strs {
            for b in &strs {
                v.push(call(f, vec![a.clone(), b.clone()]));
            }
        }
    }
    for a in &strs_small {
        for b in &strs_small {
            for c in &strs_small {
                v.push(call("concat", vec![a.clone(), b.clone(), c.clone()]));
                v.push(call("translate", vec![a.clone(), b.clone(), c.clone()]));
            }
        }
    }
    // mixed-type arguments to string functions (coercion of numbers and booleans)
    for a in nums_small.iter().chain(bools.iter()) {
        v.push(call("concat", vec![a.clone(), lit("|")]));
        v.push(call("contains", vec![lit("-0.5 true NaN Infinity 100"), a.clone()]));
        v.push(call("string-length", vec![a.clone()]));
    }
    // substring: every string of the small pool x every start x every length, and without length
    for a in &strs_small {
        for s in &nums_small {
            v.push(call("substring", vec![a.clone(), s.clone()]));
            for l in &nums_small {
                v.push(call("substring", vec![a.clone(), s.clone(), l.clone()]));
            }
        }
    }
    if tier == Tier::Thorough {
        for a in &strs {
            for s in &nums {
                v.push(call("substring", vec![a.clone(), s.clone()]));
                for l in &nums_small {
                    v.push(call("substring", vec![a.clone(), s.clone(), l.clone()]));
                }
            }
        }
    }
    // arithmetic
    for op in [Op::Add, Op::Sub, Op::Mul, Op::Div, Op::Mod] {
        for a in &nums {
            for b in &nums {
                v.push(bin(op, a.clone(), b.clone()));
            }
        }
        // coercion of strings and booleans
        for a in strs.iter().chain(bools.iter()) {
            v.push(bin(op, a.clone(), num("2")));
            v.push(bin(op, num("7"), a.clone()));
        }
    }
    // comparisons over all pairs of values
    let cmp_pool: Vec<Expr> = if tier == Tier::Thorough {
        all.clone()
    } else {
        let mut p: Vec<Expr> = vec![];
        p.extend(["", " ", "a", "abc", " 12 ", "12", "-1.5", "1e3", "NaN", "Infinity", "true", "é"].iter().map(|s| lit(s)));
        p.extend(nums_small.iter().cloned());
        p.push(num("12"));
        p.extend(bools.iter().cloned());
        p
    };
    for op in [Op::Eq, Op::Ne, Op::Lt, Op::Le, Op::Gt, Op::Ge] {
        for a in &cmp_pool {
            for b in &cmp_pool {
                v.push(bin(op, a.clone(), b.clone()));
            }
        }
    }
    // and / or with coercion
    for op in [Op::And, Op::Or] {
        for a in cmp_pool.iter().take(30) {
            v.push(bin(op, a.clone(), call("true", vec![])));
            v.push(bin(op, call("false", vec![]), a.clone()));
        }
    }
    // node-sets with numeric-looking text: sum, count, number, string, comparisons
    let sets = [
        path(true, vec![step(Axis::Child, name("r")), step(Axis::Child, name("a"))]),
        path(true, vec![step(Axis::Child, name("r")), step(Axis::Child, name("b"))]),
        path(true, vec![step(Axis::Child, name("r")), step(Axis::Child, name("c"))]),
        path(true, vec![step(Axis::Child, name("r")), step(Axis::Child, name("none"))]),
        path(true, vec![step(Axis::Child, name("r")), step(Axis::Child, NodeTest::Any)]),
    ];
    for s in &sets {
        for f in ["sum", "count", "number", "string", "boolean", "string-length", "normalize-space", "floor", "round"] {
            v.push(call(f, vec![s.clone()]));
        }
        for op in [Op::Eq, Op::Ne, Op::Lt, Op::Le, Op::Gt, Op::Ge] {
            for o in [num("1"), num("1.5"), num("2"), lit("1"), lit(" 2 "), lit("x"), lit(""), call("true", vec![]), call("false", vec![]), bin(Op::Div, num("0"), num("0"))] {
                v.push(bin(op, s.clone(), o.clone()));
                v.push(bin(op, o.clone(), s.clone()));
            }
            for s2 in &sets {
                v.push(bin(op, s.clone(), s2.clone()));
            }
        }
        v.push(bin(Op::Add, s.clone(), num("1")));
        v.push(Expr::Neg(Box::new(s.clone())));
    }
    // arity: one argument below and one above what each function admits (must be an error)
    for (f, lo, hi) in [
        ("string", 0, 1), ("number", 0, 1), ("boolean", 1, 1), ("not", 1, 1), ("floor", 1, 1), ("ceiling", 1, 1), ("round", 1, 1), ("string-length", 0, 1),
        ("normalize-space", 0, 1), ("concat", 2, 4), ("starts-with", 2, 2), ("contains", 2, 2), ("substring-before", 2, 2), ("substring-after", 2, 2),
        ("substring", 2, 3), ("translate", 3, 3), ("true", 0, 0), ("false", 0, 0), ("sum", 1, 1), ("count", 1, 1), ("last", 0, 0), ("position", 0, 0),
        ("name", 0, 1), ("local-name", 0, 1), ("namespace-uri", 0, 1), ("lang", 1, 1),
    ] {
        let arg = |k: usize| -> Vec<Expr> { (0..k).map(|_| lit("a")).collect() };
        if lo > 0 {
            v.push(call(f, arg(lo - 1)));
        }
        if f != "concat" {
            v.push(call(f, arg(hi + 1)));
        }
    }
    if tier == Tier::Thorough {
        // compositions of two unary functions over every value
        let unary = ["string", "number", "boolean", "not", "floor", "ceiling", "round", "string-length", "normalize-space"];
        for f in unary {
            for g in unary {
                for a in &all {
                    v.push(call(f, vec![call(g, vec![a.clone()])]));
                }
            }
        }
        // translate and three-argument concat over the full string pool in two of the three places
        for a in &strs {
            for b in &strs {
                for c in &strs_small {
                    v.push(call("translate", vec![a.clone(), b.clone(), c.clone()]));
                    v.push(call("translate", vec![a.clone(), c.clone(), b.clone()]));
                    v.push(call("concat", vec![a.clone(), c.clone(), b.clone()]));
                }
            }
        }
        // substring with every number as length too
        for a in &strs_small {
            for st in &nums {
                for l in &nums {
                    v.push(call("substring", vec![a.clone(), st.clone(), l.clone()]));
                }
            }
        }
        // two operators: precedence, associativity and the propagation of NaN / infinities / signed zeros
        let ops = [Op::Add, Op::Sub, Op::Mul, Op::Div, Op::Mod];
        for o1 in ops {
            for o2 in ops {
                for a in &nums_small {
                    for b in &nums_small {
                        for c in &nums_small {
                            v.push(bin(o2, bin(o1, a.clone(), b.clone()), c.clone()));
                            v.push(bin(o1, a.clone(), bin(o2, b.clone(), c.clone())));
                        }
                    }
                }
            }
        }
        // comparisons of comparisons, and / or over every pair
        for o1 in [Op::Eq, Op::Ne, Op::Lt, Op::Le, Op::Gt, Op::Ge] {
            for o2 in [Op::Eq, Op::Lt, Op::Ge] {
                for a in &nums_small {
                    for b in &nums_small {
                        for c in nums_small.iter().take(8).chain(bools.iter()) {
                            v.push(bin(o1, bin(o2, a.clone(), b.clone()), c.clone()));
                        }
                    }
                }
            }
        }
        for op in [Op::And, Op::Or] {
            for a in &all {
                for b in &all {
                    v.push(bin(op, a.clone(), b.clone()));
                }
            }
        }
        // string functions with number / boolean arguments in every place
        for f in ["starts-with", "contains", "substring-before", "substring-after", "concat"] {
            for a in nums.iter().chain(bools.iter()) {
                for b in nums_small.iter().chain(bools.iter()).chain(strs_small.iter()) {
                    v.push(call(f, vec![a.clone(), b.clone()]));
                    v.push(call(f, vec![b.clone(), a.clone()]));
                }
            }
        }
    }
    // de-duplicate by spelling
    let mut seen = std::collections::HashSet::new();
    v.retain(|e| seen.insert(canonical(e)));
    v
}

pub fn scalar_doc() -> ADoc {
    doc(el(
        "r",
        vec![],
        vec![
            e("a", vec![], vec![tx("1")]),
            e("a", vec![], vec![tx(" 2 ")]),
            e("a", vec![], vec![tx("x")]),
            e("b", vec![], vec![tx("1.5")]),
            e("b", vec![], vec![tx("-3")]),
            e("c", vec![], vec![]),
        ],
    ))
}

/// the expression with every literal -0 replaced by 0
fn positive_zero(e: &Expr) -> Expr {
    match e {
        Expr::Neg(a) if **a == Expr::Num("0".into()) => Expr::Num("0".into()),
        Expr::Neg(a) => Expr::Neg(Box::new(positive_zero(a))),
        Expr::Bin(op, a, b) => Expr::Bin(*op, Box::new(positive_zero(a)), Box::new(positive_zero(b))),
        Expr::Call(f, args) => Expr::Call(f.clone(), args.iter().map(positive_zero).collect()),
        other => other.clone(),
    }
}

fn head(e: &Expr) -> String {
    match e {
        Expr::Call(f, a) => format!("{}/{}", f, a.len()),
        Expr::Bin(op, _, _) => format!("op:{}", op.text()),
        Expr::Neg(_) => "op:unary-minus".into(),
        Expr::Num(_) => "number-literal".into(),
        Expr::Str(_) => "string-literal".into(),
        _ => "path".into(),
    }
}

fn args_of(e: &Expr) -> Vec<&Expr> {
    match e {
        Expr::Call(_, a) => a.iter().collect(),
        Expr::Bin(_, a, b) => vec![a, b],
        Expr::Neg(a) => vec![a],
        _ => vec![e],
    }
}

pub fn sig_of(kind: &str, e: &Expr) -> String {
    let cls: Vec<String> = args_of(e).iter().map(|a| arg_class(a)).collect();
    format!("{}/{}/{}", kind, head(e), cls.join(","))
}

struct Scalars {
    cases: Vec<Expr>,
    fx: Fixture,
}

impl Space for Scalars {
    fn len(&self) -> u64 {
        self.cases.len() as u64
    }
    fn describe(&self, idx: u64) -> String {
        format!("{}   on {}", canonical(&self.cases[idx as usize]), self.fx.text)
    }
    fn run(&self, idx: u64, sink: &mut Sink) {
        let e = &self.cases[idx as usize];
        let s = canonical(e);
        sink.count("states", 1);
        sink.count("transitions", 1);
        if idx % 997 == 5 {
            sink.sample(|| self.describe(idx));
        }
        let want = ref_outcome(&self.fx.tree, e, &vec![]);
        let got = run_query(&self.fx.doc, &s, &vec![], Some((&self.fx.map, &self.fx.tree)));
        sink.count("validated", 1);
        sink.note("heads", &head(e));
        let ok = match (&want, &got) {
            (Outcome::Val(a), Outcome::Val(b)) => a == b,
            (Outcome::Err(_), Outcome::Err(_)) => true,
            _ => false,
        };
        if matches!(got, Outcome::Val(_)) {
            sink.count("nontrivial", 1);
        }
        if !ok {
            let kind = match &got {
                Outcome::Panic(m) => format!("panic[{}]", panic_site(m)),
                Outcome::Err(_) => "unexpected-error".to_string(),
                Outcome::Val(g) => match &want {
                    Outcome::Err(_) => "unexpected-value".to_string(),
                    // the one difference is how negative zero is written when it becomes a string
                    Outcome::Val(w) if w.replace("-0", "0") == g.replace("-0", "0") => "negative-zero-as-string".to_string(),
                    // ... or the same call with +0 in place of -0 gives what is expected here
                    Outcome::Val(_) if canonical(&positive_zero(e)) != s && run_query(&self.fx.doc, &canonical(&positive_zero(e)), &vec![], Some((&self.fx.map, &self.fx.tree))) == want => {
                        "negative-zero-as-string".to_string()
                    }
                    // ... or the reference computes exactly this value once it writes negative zero as "-0" too
                    // (string-length(ceiling(-0.5)) = 2, contains(string(-0), '-'), ...)
                    Outcome::Val(_) if {
                        NEG_ZERO_AS_MINUS_ZERO.with(|c| c.set(true));
                        let alt = ref_outcome(&self.fx.tree, e, &vec![]);
                        NEG_ZERO_AS_MINUS_ZERO.with(|c| c.set(false));
                        alt == got
                    } =>
                    {
                        "negative-zero-as-string".to_string()
                    }
                    _ => "wrong-value".to_string(),
                },
            };
            sink.finding(Finding {
                sig: sig_of(&kind, e),
                what: format!("{} evaluates differently from XPath 1.0", head(e)),
                case: self.describe(idx),
                expected: format!("{:?}", want),
                observed: format!("{:?}", got),
            });
        }
    }
}

impl Check for C09C {
    fn id(&self) -> &'static str {
        "C09"
    }
    fn stages(&self, _tier: Tier) -> Vec<String> {
        vec!["scalars".into()]
    }
    fn prepare(&self, _stage: &str, tier: Tier, _input: &[String]) -> Box<dyn Space> {
        Box::new(Scalars { cases: cases(tier), fx: fixture(&scalar_doc()).expect("scalar fixture") })
    }
    fn meta(&self) -> Meta {
        Meta {
            rule: "full products of the core functions and operators with argument tuples from a string pool (empty, white space, ASCII, 2-/3-/4-byte characters, numeric-looking in every lexical form incl. padded, signed, exponent, hex, Infinity, NaN) and a number pool (+-0, halves, integers, 2^53, 1e21, 1e-7, 0.1+0.2, NaN, +-Infinity, spelled as literals or constant expressions) and booleans: every unary function over every value; every binary string function over all string pairs; concat/translate over all triples of a sub-pool; substring over string x start x length; the five arithmetic operators over all number pairs plus string/boolean coercion; the six comparison operators over all value pairs of every type combination; and/or; sum/count/number/string/comparisons over five node-sets with numeric-looking text; every function one argument below and above its arity. Each expression is rendered from its AST, evaluated by xml_xpath::query and by the reference evaluator (mc/src/model/xpath.rs); values compare exactly (numbers bitwise, NaN canonical). Non-trivial = the implementation returned a value.",
            bounds_quick: "35 strings (7 with white space that is not XML white space), 43 numbers (incl. the values at which x + 0.5 is inexact), 2 booleans; comparison pool 30 values; substring over 8 strings x 16 x 16",
            bounds_thorough: "as quick, plus comparisons and and/or over all pairs of the 70 values, substring over 35 strings x 33 starts x 16 lengths and 8 strings x 33 x 33, every composition of two unary functions over every value, translate / concat over 35 x 35 x 8 strings, every expression with two arithmetic operators (both groupings) over 16^3 numbers, comparisons of comparisons, string functions with number / boolean arguments",
            assumptions: &["trusts the reference core library (DESIGN.md Appendix C)"],
            unbounded_total: false,
        }
    }
}
