//! C10 — namespaces resolve per Namespaces in XML; name tests match expanded names.

use crate::checks::xp::*;
use crate::engine::{guard, panic_site, Check, Finding, Meta, Sink, Space, Tier};
use crate::model::adoc::*;
use crate::model::xpath::*;
use xml_dom::{AsExpandedName, AsNode, Element, NamedNodeMap, Node, XmlNode};

pub struct C10C;
pub static C10: C10C = C10C;

// element skeleton: r > a > a', plus b as second child of r
const LOCALS: [&str; 4] = ["r", "a", "a", "b"];

// slots per element: prefix, default declaration, p declaration, q declaration, attribute
const PREFIX: [&str; 3] = ["", "p", "q"];
const DEFDECL: [Option<&str>; 4] = [None, Some("u1"), Some("u2"), Some("")];
const PDECL: [Option<&str>; 3] = [None, Some("u1"), Some("u2")];
const QDECL: [Option<&str>; 2] = [None, Some("u1")];
const ATTR: [&str; 6] = ["", "x", "p:x", "q:x", "xml:lang", "p:xmlns"];
const SLOT_SIZES: [usize; 5] = [3, 4, 3, 2, 6];
const NSLOTS: usize = 20;

fn slot_size(s: usize) -> usize {
    SLOT_SIZES[s % 5]
}

/// all assignments with at most k slots differing from the default (0), simplest first
fn assignments(k: usize) -> Vec<[u8; NSLOTS]> {
    fn rec(pos: usize, left: usize, cur: &mut [u8; NSLOTS], out: &mut Vec<[u8; NSLOTS]>) {
        if pos == NSLOTS {
            out.push(*cur);
            return;
        }
        cur[pos] = 0;
        rec(pos + 1, left, cur, out);
        if left > 0 {
            for v in 1..slot_size(pos) {
                cur[pos] = v as u8;
                rec(pos + 1, left - 1, cur, out);
            }
            cur[pos] = 0;
        }
    }
    let mut out = vec![];
    rec(0, k, &mut [0u8; NSLOTS], &mut out);
    out.sort_by_key(|a| a.iter().filter(|x| **x != 0).count());
    out
}

/// prefix renaming applied to the document side
#[derive(Clone, Copy, PartialEq, Debug)]
pub enum Rename {
    None,
    SwapPQ,
    PToZ,
    /// not a renaming: the attributes (and so the declarations) of every element in reverse order
    ReverseAttrs,
}

fn ren(p: &str, r: Rename) -> String {
    match (r, p) {
        (Rename::SwapPQ, "p") => "q".into(),
        (Rename::SwapPQ, "q") => "p".into(),
        (Rename::PToZ, "p") => "z".into(),
        _ => p.to_string(),
    }
}

fn build(a: &[u8; NSLOTS], r: Rename) -> ADoc {
    let mk = |i: usize| -> AElem {
        let s = &a[i * 5..i * 5 + 5];
        let pre = ren(PREFIX[s[0] as usize], r);
        let name = if pre.is_empty() { LOCALS[i].to_string() } else { format!("{}:{}", pre, LOCALS[i]) };
        let mut attrs = vec![];
        if let Some(u) = DEFDECL[s[1] as usize] {
            attrs.push(at("xmlns", u));
        }
        if let Some(u) = PDECL[s[2] as usize] {
            attrs.push(at(&format!("xmlns:{}", ren("p", r)), u));
        }
        if let Some(u) = QDECL[s[3] as usize] {
            attrs.push(at(&format!("xmlns:{}", ren("q", r)), u));
        }
        let an = ATTR[s[4] as usize];
        if !an.is_empty() {
            let an = match an.split_once(':') {
                Some((p, l)) if p != "xml" => format!("{}:{}", ren(p, r), l),
                _ => an.to_string(),
            };
            attrs.push(at(&an, "v"));
        }
        if r == Rename::ReverseAttrs {
            attrs.reverse();
        }
        el(&name, attrs, vec![])
    };
    let mut r0 = mk(0);
    let mut a1 = mk(1);
    a1.children.push(ANode::Elem(mk(2)));
    r0.children.push(ANode::Elem(a1));
    r0.children.push(ANode::Elem(mk(3)));
    doc(r0)
}

pub fn binding_sets() -> Vec<(&'static str, Bindings)> {
    let b = |v: &[(Option<&str>, &str)]| -> Bindings { v.iter().map(|(p, u)| (p.map(|x| x.to_string()), u.to_string())).collect() };
    vec![
        ("none", b(&[])),
        ("r=u1", b(&[(Some("r"), "u1")])),
        ("r=u2", b(&[(Some("r"), "u2")])),
        ("r=u1,s=u2", b(&[(Some("r"), "u1"), (Some("s"), "u2")])),
        ("default=u1", b(&[(None, "u1")])),
        // the same as r=u1,s=u2 with the caller's prefixes renamed (expressions are renamed with them)
        ("t=u1,w=u2", b(&[(Some("t"), "u1"), (Some("w"), "u2")])),
        // p bound by the caller to something else than in the document: prefixes are not compared as text
        ("p=u2,q=u2", b(&[(Some("p"), "u2"), (Some("q"), "u2")])),
        // a prefix bound twice: the later binding replaces the earlier one
        ("r=u2;r=u1,s=u1;s=u2", b(&[(Some("r"), "u2"), (Some("s"), "u1"), (Some("r"), "u1"), (Some("s"), "u2")])),
    ]
}

fn queries(bname: &str) -> Vec<Expr> {
    let (r, s) = match bname {
        "t=u1,w=u2" => ("t", "w"),
        "p=u2,q=u2" => ("p", "q"),
        _ => ("r", "s"),
    };
    let d = |t: NodeTest| path(true, vec![dslash(), step(Axis::Child, t)]);
    let a = |t: NodeTest| path(true, vec![dslash(), step(Axis::Attribute, t)]);
    let pred = |p: Expr| path(true, vec![dslash(), stepp(Axis::Child, NodeTest::Any, vec![p])]);
    let apred = |p: Expr| path(true, vec![dslash(), stepp(Axis::Attribute, NodeTest::Any, vec![p])]);
    let mut v = vec![
        d(name("a")),
        d(NodeTest::Any),
        a(name("x")),
        a(NodeTest::Any),
        a(name("xml:lang")),
        pred(bin(Op::Eq, call("namespace-uri", vec![]), lit("u1"))),
        pred(bin(Op::Eq, call("namespace-uri", vec![]), lit(""))),
        pred(bin(Op::Eq, call("local-name", vec![]), lit("a"))),
        pred(bin(Op::Eq, call("name", vec![]), lit("p:a"))),
        pred(bin(Op::Eq, call("name", vec![]), lit("a"))),
        apred(bin(Op::Eq, call("namespace-uri", vec![]), lit("u1"))),
        apred(bin(Op::Eq, call("namespace-uri", vec![]), lit(""))),
        apred(bin(Op::Eq, call("name", vec![]), lit("p:x"))),
        apred(bin(Op::Eq, call("name", vec![]), lit("xml:lang"))),
        call("namespace-uri", vec![path(true, vec![step(Axis::Child, NodeTest::Any)])]),
        call("name", vec![path(true, vec![step(Axis::Child, NodeTest::Any), step(Axis::Child, NodeTest::Any)])]),
        call("count", vec![path(true, vec![step(Axis::Child, NodeTest::Any), step(Axis::Namespace, NodeTest::Any)])]),
        path(true, vec![step(Axis::Child, NodeTest::Any), step(Axis::Namespace, name("p"))]),
        // the expanded name of a namespace node: the prefix, empty for the default namespace
        path(true, vec![step(Axis::Child, NodeTest::Any), step(Axis::Namespace, name("xmlns"))]),
        call("count", vec![path(true, vec![step(Axis::Child, NodeTest::Any), stepp(Axis::Namespace, NodeTest::Any, vec![bin(Op::Eq, call("name", vec![]), lit(""))])])]),
        call("count", vec![path(true, vec![step(Axis::Child, NodeTest::Any), stepp(Axis::Namespace, NodeTest::Any, vec![bin(Op::Eq, call("local-name", vec![]), lit("p"))])])]),
        call("count", vec![path(true, vec![step(Axis::Child, NodeTest::Any), stepp(Axis::Namespace, NodeTest::Any, vec![bin(Op::Ne, call("namespace-uri", vec![]), lit(""))])])]),
        path(true, vec![step(Axis::Child, NodeTest::Any), step(Axis::Namespace, NodeTest::Any)]),
        // document order on one element: its namespace nodes, then its attributes, whatever the order in the start tag
        bin(Op::Union, path(true, vec![step(Axis::Child, NodeTest::Any), step(Axis::Attribute, NodeTest::Any)]), path(true, vec![step(Axis::Child, NodeTest::Any), step(Axis::Namespace, NodeTest::Any)])),
        call("count", vec![path(true, vec![step(Axis::Child, NodeTest::Any), step(Axis::Attribute, NodeTest::Any), step(Axis::Preceding, NodeTest::Node)])]),
    ];
    if bname != "none" && bname != "default=u1" {
        for pre in [r, s] {
            if bname == "r=u1" && pre == s || bname == "r=u2" && pre == s {
                // unbound prefix: must be an error
            }
            v.push(d(name(&format!("{}:a", pre))));
            v.push(d(NodeTest::NsAny(pre.to_string())));
            v.push(a(name(&format!("{}:x", pre))));
            v.push(a(NodeTest::NsAny(pre.to_string())));
            v.push(pred(path(false, vec![step(Axis::SelfAxis, name(&format!("{}:a", pre)))])));
        }
    }
    v
}

struct NsDocs {
    assigns: Vec<[u8; NSLOTS]>,
}

fn report(sink: &mut Sink, sig: String, what: &str, case: String, exp: String, obsd: String) {
    sink.finding(Finding { sig, what: what.to_string(), case, expected: exp, observed: obsd });
}

fn features(a: &[u8; NSLOTS]) -> String {
    let mut f = vec![];
    for i in 0..4 {
        let s = &a[i * 5..i * 5 + 5];
        if s[0] != 0 {
            f.push("prefixed-element");
        }
        match s[1] {
            1 | 2 => f.push("default-decl"),
            3 => f.push("default-undeclared"),
            _ => {}
        }
        if s[2] != 0 || s[3] != 0 {
            f.push(if i == 0 { "prefix-decl-on-root" } else { "prefix-decl-below-root" });
        }
        match s[4] {
            1 => f.push("plain-attr"),
            2 | 3 => f.push("prefixed-attr"),
            4 => f.push("xml-lang"),
            _ => {}
        }
    }
    f.sort();
    f.dedup();
    f.join("+")
}

impl Space for NsDocs {
    fn len(&self) -> u64 {
        self.assigns.len() as u64
    }
    fn describe(&self, idx: u64) -> String {
        render_canonical(&build(&self.assigns[idx as usize], Rename::None))
    }
    fn run(&self, idx: u64, sink: &mut Sink) {
        let a = &self.assigns[idx as usize];
        for rn in [Rename::None, Rename::SwapPQ, Rename::PToZ, Rename::ReverseAttrs] {
            let d = build(a, rn);
            // only namespace-well-formed documents are in the space
            let tree = match XTree::from_adoc(&d) {
                Ok(t) => t,
                Err(_) => {
                    sink.count("not-namespace-well-formed", 1);
                    return;
                }
            };
            if rn != Rename::None && render_canonical(&d) == render_canonical(&build(a, Rename::None)) {
                continue;
            }
            sink.count("states", 1);
            let feat = format!("{}{}", features(a), if rn == Rename::None { "" } else { "+renamed" });
            let fx = match fixture(&d) {
                Ok(f) => f,
                Err(m) => {
                    report(sink, format!("rejected/{}", feat), "a namespace-well-formed document is not accepted", render_canonical(&d), "accepted".into(), m);
                    continue;
                }
            };
            if idx % 500 == 1 && rn == Rename::None {
                sink.sample(|| fx.text.clone());
            }
            // (1) expanded names and in-scope namespaces through the DOM
            fn walk(n: &XmlNode, out: &mut Vec<XmlNode>) {
                out.push(n.clone());
                for c in n.child_nodes().iter() {
                    if matches!(c, XmlNode::Element(_)) {
                        walk(&c, out);
                    }
                }
            }
            let mut elems = vec![];
            if let Ok(root) = xml_dom::Document::document_element(&fx.doc) {
                walk(&root.as_node(), &mut elems);
            }
            for e in &elems {
                let mi = match fx.map.map.get(&(K::Elem, e.id())) {
                    Some(i) => *i,
                    None => continue,
                };
                let m = &tree.nodes[mi];
                sink.count("transitions", 1);
                sink.count("validated", 1);
                sink.count("nontrivial", 1);
                let r = guard(|| e.as_expanded_name());
                let want = (m.local.clone(), m.uri.clone());
                match r {
                    Ok(Ok(Some((l, _p, u)))) => {
                        if (l.clone(), u.clone()) != want {
                            report(sink, format!("element-expanded-name/{}", feat), "an element's expanded name differs from Namespaces in XML", format!("{} in {}", tree.describe(mi), fx.text), format!("{:?}", want), format!("{:?}", (l, u)));
                        }
                    }
                    Ok(other) => report(sink, format!("element-expanded-name-error/{}", feat), "no expanded name", format!("{} in {}", tree.describe(mi), fx.text), format!("{:?}", want), format!("{:?}", other)),
                    Err(p) => report(sink, format!("panic/{}/{}", panic_site(&p), feat), "panic in as_expanded_name", fx.text.clone(), "a name".into(), p),
                }
                if let XmlNode::Element(el) = e {
                    // in-scope namespaces
                    let r = guard(|| el.in_scope_namespace());
                    let mut want: Vec<(String, String)> = m.nss.iter().map(|n| (tree.nodes[*n].local.clone(), tree.nodes[*n].value.clone())).collect();
                    want.sort();
                    match r {
                        Ok(Ok(list)) => {
                            let mut got: Vec<(String, String)> = list
                                .iter()
                                .map(|n| {
                                    let p = n.node_name();
                                    (if p == "xmlns" { String::new() } else { p }, n.node_value().ok().flatten().unwrap_or_default())
                                })
                                .collect();
                            got.sort();
                            // an undeclared default namespace may be listed with an empty name: not in scope
                            got.retain(|x| !(x.0.is_empty() && x.1.is_empty()));
                            if got != want {
                                report(sink, format!("in-scope-namespaces/{}", feat), "an element's in-scope namespaces differ from Namespaces in XML", format!("{} in {}", tree.describe(mi), fx.text), format!("{:?}", want), format!("{:?}", got));
                            }
                        }
                        Ok(Err(e)) => report(sink, format!("in-scope-namespaces-error/{}", feat), "in_scope_namespace failed", fx.text.clone(), format!("{:?}", want), format!("{:?}", e)),
                        Err(p) => report(sink, format!("panic/{}/{}", panic_site(&p), feat), "panic in in_scope_namespace", fx.text.clone(), "a list".into(), p),
                    }
                    // attributes
                    if let Some(attrs) = el.attributes() {
                        for at in attrs.iter() {
                            let an = at.as_node();
                            let ai = match fx.map.map.get(&(K::Attr, an.id())) {
                                Some(i) => *i,
                                None => continue,
                            };
                            let am = &tree.nodes[ai];
                            sink.count("transitions", 1);
                            sink.count("validated", 1);
                            match guard(|| an.as_expanded_name()) {
                                Ok(Ok(Some((l, _p, u)))) => {
                                    if (l.clone(), u.clone()) != (am.local.clone(), am.uri.clone()) {
                                        report(sink, format!("attribute-expanded-name/{}", feat), "an attribute's expanded name differs from Namespaces in XML", format!("{} in {}", tree.describe(ai), fx.text), format!("{:?}", (&am.local, &am.uri)), format!("{:?}", (l, u)));
                                    }
                                }
                                Ok(other) => report(sink, format!("attribute-expanded-name-error/{}", feat), "no expanded name", fx.text.clone(), format!("{:?}", (&am.local, &am.uri)), format!("{:?}", other)),
                                Err(p) => report(sink, format!("panic/{}/{}", panic_site(&p), feat), "panic in as_expanded_name", fx.text.clone(), "a name".into(), p),
                            }
                        }
                    }
                }
            }
            // (2) name tests and name functions through XPath under every caller binding set
            for (bname, b) in binding_sets() {
                for e in queries(bname) {
                    let s = canonical(&e);
                    sink.count("transitions", 1);
                    let want = ref_outcome(&fx.tree, &e, &b);
                    let got = run_query(&fx.doc, &s, &b, Some((&fx.map, &fx.tree)));
                    sink.count("validated", 1);
                    let ok = match (&want, &got) {
                        (Outcome::Err(_), Outcome::Err(_)) => true,
                        (x, y) => x == y,
                    };
                    if !ok {
                        let kind = match &got {
                            Outcome::Panic(m) => format!("panic[{}]", panic_site(m)),
                            Outcome::Err(_) => "unexpected-error".into(),
                            Outcome::Val(g) => match &want {
                                Outcome::Val(w) => crate::checks::c05::diff_kind(w, g).to_string(),
                                _ => "unexpected-value".into(),
                            },
                        };
                        let ns_axis = s.contains("namespace::");
                        let marker = if ns_axis { "ns-axis/" } else { "" };
                        report(
                            sink,
                            format!("{}query/{}/{}/{}/{}", marker, kind, crate::checks::xgen::features(&e), bname, feat),
                            "a name test or name function disagrees with the expanded names",
                            format!("{}  with bindings {}\non {}", s, bname, fx.text),
                            format!("{:?}", want),
                            format!("{:?}", got),
                        );
                    }
                }
            }
        }
    }
}

// ---- stage dtd-ns: namespace declarations that come from (or are merely declared in) the DTD; differential, no reference
// model: an ATTLIST declaration of xmlns / xmlns:p for element e with default kind K, the attribute not written, must give
// the document the same names, in-scope sets and query answers as the equivalent document without a DTD (#IMPLIED and
// #REQUIRED add nothing; a default value / #FIXED value equals the declaration written on every e).
struct DtdNs {
    cases: Vec<(String, String)>,
}

fn dtd_ns_cases() -> Vec<(String, String)> {
    let mut v = vec![];
    let bodies: [(&str, &str); 4] = [
        ("<p:r xmlns:p=\"u1\" xmlns=\"u1\"><e{}><p:c k=\"1\" p:k=\"2\"/><c/></e><p:e{}/><e{}/></p:r>", "e"),
        ("<r xmlns:p=\"u1\"><p:e{}><p:c/><e{}><p:c/></e></p:e><e{}/></r>", "e"),
        ("<r xmlns=\"u1\" xmlns:p=\"u2\"><a><e{}><c p:k=\"v\"/></e></a><e{}><e{}/></e></r>", "e"),
        ("<r><e{}><p:c xmlns:p=\"u1\"/><c/></e><e{} xmlns:p=\"u1\"><p:c/></e><e{}/></r>", "e"),
    ];
    for (body, _el) in bodies {
        let root = if body.starts_with("<p:r") { "p:r" } else { "r" };
        for att in ["xmlns:p", "xmlns", "xmlns:q"] {
            for (kind, eff) in [("#IMPLIED", None), ("#REQUIRED", None), ("\"u2\"", Some("u2")), ("#FIXED \"u2\"", Some("u2")), ("\"u1\"", Some("u1"))] {
                let with_dtd = format!("<!DOCTYPE {} [<!ATTLIST e {} CDATA {}>]>{}", root, att, kind, body.replace("{}", ""));
                let written = match eff {
                    Some(u) => format!(" {}=\"{}\"", att, u),
                    None => String::new(),
                };
                // a p:e element is not of type e: the declaration does not apply to it
                let mut plain = String::new();
                let mut rest = body;
                while let Some(i) = rest.find("{}") {
                    let head = &rest[..i];
                    let is_e = head.ends_with("<e");
                    plain.push_str(head);
                    if is_e {
                        plain.push_str(&written);
                    }
                    rest = &rest[i + 2..];
                }
                plain.push_str(rest);
                // skip a default that would collide with a declaration written on the element
                if eff.is_some() && plain.contains(&format!("{}=\"{}\" {}=", att, eff.unwrap(), att)) {
                    continue;
                }
                v.push((with_dtd, plain));
            }
        }
    }
    v
}

fn dtd_ns_observe(text: &str) -> Result<String, String> {
    let (p, doc) = crate::obs::parse_dom(text, true);
    let doc = match (p, doc) {
        (crate::obs::Parsed::Complete, Some(d)) => d,
        (p, _) => return Err(format!("not accepted: {:?}", p)),
    };
    let mut out = String::new();
    fn walk(n: &XmlNode, out: &mut String) {
        if let XmlNode::Element(el) = n {
            out.push_str(&format!("elem {:?}", n.as_expanded_name().map(|x| x.map(|(l, _p, u)| (l, u))).map_err(|e| format!("{:?}", e))));
            let mut ns: Vec<(String, String)> = match el.in_scope_namespace() {
                Ok(l) => l.iter().map(|a| (a.node_name(), a.node_value().ok().flatten().unwrap_or_default())).collect(),
                Err(e) => vec![("error".into(), format!("{:?}", e))],
            };
            ns.retain(|x| !(x.1.is_empty()));
            ns.sort();
            out.push_str(&format!(" ns={:?}", ns));
            let mut at: Vec<String> = vec![];
            if let Some(m) = n.attributes() {
                for a in m.iter() {
                    let nm = a.node_name();
                    if nm == "xmlns" || a.as_node().as_expanded_name().ok().flatten().map(|x| x.1.as_deref() == Some("xmlns")).unwrap_or(false) {
                        continue;
                    }
                    at.push(format!("{:?}", a.as_node().as_expanded_name().map(|x| x.map(|(l, _p, u)| (l, u))).map_err(|e| format!("{:?}", e))));
                }
            }
            at.sort();
            out.push_str(&format!(" attrs={:?}\n", at));
        }
        for c in n.child_nodes().iter() {
            walk(&c, out);
        }
    }
    let r = guard(|| {
        let mut o = String::new();
        if let Ok(root) = xml_dom::Document::document_element(&doc) {
            walk(&root.as_node(), &mut o);
        }
        o
    });
    match r {
        Ok(o) => out.push_str(&o),
        Err(p) => return Err(format!("panic {}", p)),
    }
    let b: Bindings = vec![(Some("x".to_string()), "u1".to_string()), (Some("y".to_string()), "u2".to_string())];
    for q in [
        "count(//x:*)", "count(//y:*)", "count(//*[namespace-uri()=''])", "count(//x:e)", "count(//y:e)", "count(//e)", "count(//x:c)", "count(//y:c)", "count(//c)",
        "count(//@x:k)", "count(//@y:k)", "count(//@k)", "count(//*[namespace::p='u1'])",
        "count(//*[namespace::p='u2'])", "count(//*[namespace::*[name()='']='u2'])", "count(//*[namespace::*[name()='']='u1'])", "string(namespace-uri((//e)[1]))",
        "string(namespace-uri((//*[local-name()='e'])[last()]))", "count(//e/x:c)", "count(//x:e/x:c)", "count(//y:e//x:c)", "count(//y:e//y:c)",
    ] {
        out.push_str(&format!("{} = {:?}\n", q, run_query(&doc, q, &b, None)));
    }
    Ok(out)
}

impl Space for DtdNs {
    fn len(&self) -> u64 {
        self.cases.len() as u64
    }
    fn describe(&self, idx: u64) -> String {
        self.cases[idx as usize].0.clone()
    }
    fn run(&self, idx: u64, sink: &mut Sink) {
        let (with_dtd, plain) = &self.cases[idx as usize];
        sink.count("states", 1);
        sink.count("transitions", 2);
        if idx % 20 == 1 {
            sink.sample(|| format!("{}  ==  {}", with_dtd, plain));
        }
        let a = dtd_ns_observe(with_dtd);
        let b = dtd_ns_observe(plain);
        sink.count("validated", 1);
        sink.count("nontrivial", 1);
        let kind = if with_dtd.contains("#IMPLIED") {
            "implied"
        } else if with_dtd.contains("#REQUIRED") {
            "required"
        } else if with_dtd.contains("#FIXED") {
            "fixed"
        } else {
            "default"
        };
        let att = if with_dtd.contains("ATTLIST e xmlns:p") { "xmlns:p" } else if with_dtd.contains("ATTLIST e xmlns:q") { "xmlns:q" } else { "xmlns" };
        match (a, b) {
            (Ok(x), Ok(y)) => {
                if x != y {
                    let first = x.lines().zip(y.lines()).find(|(l, r)| l != r).map(|(l, r)| format!("{}   <>   {}", l, r)).unwrap_or_default();
                    report(sink, format!("dtd-ns/differs/{}/{}", att, kind), "a namespace declaration attribute declared in the DTD changes names / scopes / query answers against the equivalent document without a DTD", format!("{}\nagainst\n{}", with_dtd, plain), y, format!("first difference: {}\n{}", first, x));
                }
            }
            (Err(m), Ok(_)) => report(sink, format!("dtd-ns/rejected/{}/{}", att, kind), "the document with the ATTLIST declaration is not usable", with_dtd.clone(), "accepted".into(), m),
            (_, Err(m)) => report(sink, format!("dtd-ns/plain-rejected/{}/{}", att, kind), "the equivalent document is not usable", plain.clone(), "accepted".into(), m),
        }
    }
}

impl Check for C10C {
    fn id(&self) -> &'static str {
        "C10"
    }
    fn stages(&self, _tier: Tier) -> Vec<String> {
        vec!["ns-docs".into(), "dtd-ns".into()]
    }
    fn prepare(&self, stage: &str, tier: Tier, _input: &[String]) -> Box<dyn Space> {
        if stage == "dtd-ns" {
            return Box::new(DtdNs { cases: dtd_ns_cases() });
        }
        Box::new(NsDocs { assigns: assignments(tier.pick(3, 4)) })
    }
    fn case_cap(&self, tier: Tier) -> f64 {
        tier.pick(30.0, 120.0)
    }
    fn meta(&self) -> Meta {
        Meta {
            rule: "documents: the element skeleton r > a > a plus b under r; per element five slots — prefix {none, p, q}, default-namespace declaration {none, u1, u2, xmlns=\"\"}, xmlns:p {none, u1, u2}, xmlns:q {none, u1}, attribute {none, x, p:x, q:x, xml:lang, p:xmlns (an ordinary attribute, not a declaration)} — every assignment with at most k slots differing from the plain document, restricted to namespace-well-formed ones (shadowing, re-declaration, undeclaration, attributes under a default namespace, xml: without declaration); each document also with its prefixes renamed consistently (p<->q, p->z). Oracle: scope resolution on the abstract document. Compared: as_expanded_name of every element and attribute, in_scope_namespace of every element, and under 8 caller binding sets (a prefix bound twice, none, r=u1, r=u2, r=u1+s=u2, default=u1, the same with renamed caller prefixes, document prefixes bound differently by the caller) 25-35 name tests and name functions (a, *, r:a, r:*, @x, @r:x, @r:*, self::r:a, namespace-uri(), local-name(), name(), the namespace axis, the names of namespace nodes, namespace and attribute nodes of one element in document order) against the reference evaluator; unbound prefixes must be errors. Non-trivial = one element's names compared.",
            bounds_quick: "k = 3 (17,605 assignments before the well-formedness filter) x (3 renamings + reversed attribute order) x 8 binding sets",
            bounds_thorough: "k = 4 (assignments with up to 4 non-default slots of 20) x (3 renamings + reversed attribute order) x 8 binding sets",
            assumptions: &["an unprefixed element name test uses the caller's default binding when one is set (the tools' documented extension), unprefixed attribute name tests never do"],
            unbounded_total: false,
        }
    }
}
