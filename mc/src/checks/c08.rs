//! C08 — equivalent XPath spellings evaluate identically; precedence per grammar.

use crate::checks::xgen;
use crate::checks::xp::*;
use crate::engine::{Check, Finding, Meta, Sink, Space, Tier};
use crate::model::adoc::ADoc;
use crate::model::xpath::*;

pub struct C08C;
pub static C08: C08C = C08C;

/// every spelling one deviation away from the two base spellings (all-unabbreviated, all-abbreviated)
pub fn respellings(e: &Expr) -> Vec<(String, String)> {
    let mut out: Vec<(String, String)> = vec![];
    for base_abbrev in [false, true] {
        let base = Style { abbrev: base_abbrev, ..Style::default() };
        let (toks, sites) = tokens(e, &base);
        let tag = if base_abbrev { "abbr" } else { "long" };
        out.push((format!("{}-base", tag), join(&toks, &|_| None)));
        for i in 0..sites.abbrev {
            let st = Style { flip_abbrev: Some(i), ..base.clone() };
            out.push((format!("{}-flip-abbreviation", tag), render(e, &st)));
        }
        for i in 0..sites.numpred {
            let st = Style { flip_numpred: Some(i), ..base.clone() };
            out.push((format!("{}-number-predicate-as-position", tag), render(e, &st)));
        }
        for i in 0..sites.paren {
            let st = Style { paren_site: Some(i), ..base.clone() };
            out.push((format!("{}-redundant-parentheses", tag), render(e, &st)));
        }
        // white space at each interior gap, and at all gaps at once (space, and tab + newline)
        if toks.len() > 1 {
            for g in 0..toks.len() - 1 {
                out.push((format!("{}-space-at-one-gap", tag), join(&toks, &|i| if i == g { Some(" ") } else { None })));
            }
            out.push((format!("{}-space-at-all-gaps", tag), join(&toks, &|_| Some(" "))));
            out.push((format!("{}-tab-newline-at-all-gaps", tag), join(&toks, &|_| Some("\t\n"))));
        }
    }
    let mut seen = std::collections::HashSet::new();
    out.retain(|x| seen.insert(x.1.clone()));
    out
}

struct Spellings {
    docs: Vec<ADoc>,
    exprs: Vec<Expr>,
}

impl Space for Spellings {
    fn len(&self) -> u64 {
        self.exprs.len() as u64
    }
    fn describe(&self, idx: u64) -> String {
        format!("all spellings one deviation away from {}", canonical(&self.exprs[idx as usize]))
    }
    fn run(&self, idx: u64, sink: &mut Sink) {
        let e = &self.exprs[idx as usize];
        let sp = respellings(e);
        sink.count("states", 1);
        if idx % 2000 == 3 {
            sink.sample(|| format!("{:?}", sp.iter().take(12).map(|x| x.1.clone()).collect::<Vec<_>>()));
        }
        thread_local! {
            static FX: std::cell::RefCell<Option<Vec<Fixture>>> = const { std::cell::RefCell::new(None) };
        }
        FX.with(|cell| {
            let mut b = cell.borrow_mut();
            if b.is_none() {
                *b = Some(self.docs.iter().filter_map(|d| fixture(d).ok()).collect());
            }
            let fxs = b.as_ref().unwrap();
            for fx in fxs {
                let want = ref_outcome(&fx.tree, e, &vec![]);
                let base = run_query(&fx.doc, &sp[0].1, &vec![], Some((&fx.map, &fx.tree)));
                for (kind, s) in sp.iter().skip(1) {
                    sink.count("transitions", 1);
                    let got = run_query(&fx.doc, s, &vec![], Some((&fx.map, &fx.tree)));
                    sink.count("validated", 1);
                    if matches!(got, Outcome::Val(_)) {
                        sink.count("nontrivial", 1);
                    }
                    let same = match (&base, &got) {
                        (Outcome::Err(_), Outcome::Err(_)) => true,
                        (a, b) => a == b,
                    };
                    if !same {
                        // which of the two is right, if any (ties this check to C05)
                        let agrees = |o: &Outcome| match (o, &want) {
                            (Outcome::Err(_), Outcome::Err(_)) => true,
                            (a, b) => a == b,
                        };
                        let verdict = if agrees(&base) { "respelling-wrong" } else if agrees(&got) { "base-wrong" } else { "both-wrong" };
                        sink.finding(Finding {
                            sig: format!("spellings-differ/{}/{}/{}", kind.splitn(2, '-').nth(1).unwrap_or(kind), verdict, xgen::features(e)),
                            what: format!("two spellings of one expression evaluate differently ({})", kind),
                            case: format!("{}\nvs\n{}\non {}", sp[0].1, s, fx.text),
                            expected: format!("the same result; XPath 1.0 prescribes {:?}", want),
                            observed: format!("{:?}\nvs\n{:?}", base, got),
                        });
                    }
                }
            }
        });
    }
}

// ---------------------------------------------------------------------------------------------
// precedence and associativity, node-type tests at every step start, lexical disambiguation

struct Grammar {
    doc: ADoc,
    cases: Vec<(String, String, &'static str)>, // (spelling under test, explicit spelling, kind)
}

fn operands() -> Vec<&'static str> {
    vec!["0", "1", "2", "3", "true()", "false()", "'a'", "''", "/r/a", "/r/b"]
}

fn grammar_cases(quick: bool) -> Vec<(String, String, &'static str)> {
    let mut v: Vec<(String, String, &'static str)> = vec![];
    let ops: Vec<Op> = BIN_OPS.to_vec();
    let xs = operands();
    let xs: Vec<&str> = if quick { xs.into_iter().filter(|x| !matches!(*x, "3" | "''")).collect() } else { xs };
    for o1 in &ops {
        for o2 in &ops {
            for x in &xs {
                for y in &xs {
                    for z in &xs {
                        // the grouping the grammar prescribes: higher precedence binds tighter, equal
                        // precedence associates to the left
                        let flat = format!("{} {} {} {} {}", x, o1.text(), y, o2.text(), z);
                        let grouped = if o2.prec() > o1.prec() {
                            format!("{} {} ({} {} {})", x, o1.text(), y, o2.text(), z)
                        } else {
                            format!("({} {} {}) {} {}", x, o1.text(), y, o2.text(), z)
                        };
                        v.push((flat, grouped, "precedence"));
                    }
                }
            }
        }
    }
    for o in &ops {
        for x in &xs {
            for y in &xs {
                v.push((format!("-{} {} {}", x, o.text(), y), if o.prec() > 7 { format!("-({} {} {})", x, o.text(), y) } else { format!("(-{}) {} {}", x, o.text(), y) }, "unary-minus"));
                v.push((format!("{} {} -{}", x, o.text(), y), format!("{} {} (-{})", x, o.text(), y), "unary-minus"));
                v.push((format!("{} {} - -{}", x, o.text(), y), format!("{} {} (-(-{}))", x, o.text(), y), "unary-minus"));
            }
        }
    }
    // node-type tests wherever a step may begin
    for t in ["text()", "node()", "comment()", "processing-instruction()", "processing-instruction('p')"] {
        let c = format!("child::{}", t);
        v.push((t.to_string(), c.clone(), "node-type-test-at-step-start"));
        v.push((format!("/r/{}", t), format!("/r/{}", c), "node-type-test-at-step-start"));
        v.push((format!("//{}", t), format!("//{}", c), "node-type-test-at-step-start"));
        v.push((format!("/r//{}", t), format!("/r//{}", c), "node-type-test-at-step-start"));
        v.push((format!("//a | {}", t), format!("//a | {}", c), "node-type-test-at-step-start"));
        v.push((format!("{} | //a", t), format!("{} | //a", c), "node-type-test-at-step-start"));
        v.push((format!("({})", t), format!("({})", c), "node-type-test-at-step-start"));
        v.push((format!("count({})", t), format!("count({})", c), "node-type-test-at-step-start"));
        v.push((format!("//*[{}]", t), format!("//*[{}]", c), "node-type-test-at-step-start"));
        v.push((format!("//*[1][{}]", t), format!("//*[1][{}]", c), "node-type-test-at-step-start"));
        v.push((format!("//*[concat('x', {}) = 'xt']", t), format!("//*[concat('x', {}) = 'xt']", c), "node-type-test-at-step-start"));
        v.push((format!("//*[{} = 't']", t), format!("//*[{} = 't']", c), "node-type-test-at-step-start"));
        v.push((format!("//*[1 = {}]", t), format!("//*[1 = {}]", c), "node-type-test-at-step-start"));
        v.push((format!("//*[not({})]", t), format!("//*[not({})]", c), "node-type-test-at-step-start"));
        v.push((format!("/r/*/{}", t), format!("/r/child::*/{}", c), "node-type-test-at-step-start"));
        v.push((format!("- {}", t), format!("- {}", c), "node-type-test-at-step-start"));
    }
    // operator names and node-type names as element names; `*` as name test and as operator
    for (a, b) in [
        ("/r/div div /r/mod", "(/r/child::div) div (/r/child::mod)"),
        ("/r/div mod /r/mod", "(/r/child::div) mod (/r/child::mod)"),
        ("/r/and and /r/or", "(/r/child::and) and (/r/child::or)"),
        ("/r/or or /r/none", "(/r/child::or) or (/r/child::none)"),
        ("//div", "/descendant-or-self::node()/child::div"),
        ("//mod", "/descendant-or-self::node()/child::mod"),
        ("//and | //or", "/descendant-or-self::node()/child::and | /descendant-or-self::node()/child::or"),
        ("/r/text", "/child::r/child::text"),
        ("/r/node", "/child::r/child::node"),
        ("/r/comment", "/child::r/child::comment"),
        ("/r/text/text()", "/child::r/child::text/child::text()"),
        ("div", "child::div"),
        ("r/div", "child::r/child::div"),
        ("r/div div 2", "(child::r/child::div) div 2"),
        ("r/div*2", "(child::r/child::div) * 2"),
        ("r/* * 2", "(child::r/child::*) * 2"),
        ("count(r/*)*2", "count(child::r/child::*) * 2"),
        ("2*count(//*)", "2 * count(//*)"),
        ("r/*[2]", "child::r/child::*[2]"),
        ("r/*[. * 2 = 6]", "child::r/child::*[self::node() * 2 = 6]"),
        ("r/div [1]", "child::r/child::div[1]"),
        ("r/mod mod 2", "(child::r/child::mod) mod 2"),
        ("r/mod mod r/and", "(child::r/child::mod) mod (child::r/child::and)"),
        ("r/div - 1", "(child::r/child::div) - 1"),
        ("r/div -1", "(child::r/child::div) - 1"),
        ("1 - 1", "1 -1"),
        ("1 -1", "1 - 1"),
        ("r/text * 2", "(child::r/child::text) * 2"),
        ("//*[self::div or self::mod]", "//*[(self::div) or (self::mod)]"),
        ("//*[. = 3 and position() = 2]", "//*[(. = 3) and (position() = 2)]"),
        ("1 < 2 = true()", "(1 < 2) = true()"),
        ("1 = 1 < 2", "1 = (1 < 2)"),
        ("3 > 2 > 1", "(3 > 2) > 1"),
        ("6 div 2 * 3", "(6 div 2) * 3"),
        ("7 mod 4 mod 2", "(7 mod 4) mod 2"),
        ("2 - 3 - 4", "(2 - 3) - 4"),
        ("1 or 0 and 0", "1 or (0 and 0)"),
        ("1 = 2 != 3", "(1 = 2) != 3"),
    ] {
        v.push((a.to_string(), b.to_string(), "lexical"));
    }
    let mut seen = std::collections::HashSet::new();
    v.retain(|x| seen.insert((x.0.clone(), x.1.clone())));
    v
}

impl Space for Grammar {
    fn len(&self) -> u64 {
        (self.cases.len() as u64 + 199) / 200
    }
    fn describe(&self, idx: u64) -> String {
        let c = &self.cases[(idx as usize * 200).min(self.cases.len() - 1)];
        format!("{}   must evaluate like   {}   ({})", c.0, c.1, c.2)
    }
    fn run(&self, idx: u64, sink: &mut Sink) {
        let fx = match fixture(&self.doc) {
            Ok(f) => f,
            Err(_) => return,
        };
        let lo = idx as usize * 200;
        let hi = (lo + 200).min(self.cases.len());
        for (a, b, kind) in &self.cases[lo..hi] {
            sink.count("states", 1);
            sink.count("transitions", 2);
            let ra = run_query(&fx.doc, a, &vec![], Some((&fx.map, &fx.tree)));
            let rb = run_query(&fx.doc, b, &vec![], Some((&fx.map, &fx.tree)));
            sink.count("validated", 1);
            if matches!(ra, Outcome::Val(_)) {
                sink.count("nontrivial", 1);
            }
            if lo == 0 {
                sink.sample(|| format!("{}  ==  {}", a, b));
            }
            let same = match (&ra, &rb) {
                (Outcome::Err(_), Outcome::Err(_)) => true,
                (x, y) => x == y,
            };
            if !same {
                let feat = match *kind {
                    "precedence" | "unary-minus" => {
                        let ops: Vec<&str> = a.split(' ').filter(|t| BIN_OPS.iter().any(|o| o.text() == *t)).collect();
                        ops.join(",")
                    }
                    _ => a.chars().map(|c| if c.is_ascii_digit() { '#' } else { c }).take(40).collect(),
                };
                sink.finding(Finding {
                    sig: format!("grammar/{}/{}", kind, feat),
                    what: format!("an expression is not grouped / tokenised as the XPath grammar prescribes ({})", kind),
                    case: format!("{}\nmust evaluate like\n{}\non {}", a, b, fx.text),
                    expected: format!("{:?}", rb),
                    observed: format!("{:?}", ra),
                });
            }
        }
    }
}

impl Check for C08C {
    fn id(&self) -> &'static str {
        "C08"
    }
    fn stages(&self, _tier: Tier) -> Vec<String> {
        vec!["spellings".into(), "grammar".into()]
    }
    fn prepare(&self, stage: &str, tier: Tier, _input: &[String]) -> Box<dyn Space> {
        let quick = tier == Tier::Quick;
        if stage == "grammar" {
            return Box::new(Grammar { doc: xgen::rich_docs()[6].clone(), cases: grammar_cases(quick) });
        }
        let docs = if quick { xgen::rich_docs().into_iter().take(3).collect() } else { xgen::rich_docs() };
        Box::new(Spellings { docs, exprs: xgen::expressions(quick) })
    }
    fn case_cap(&self, tier: Tier) -> f64 {
        tier.pick(60.0, 240.0)
    }
    fn meta(&self) -> Meta {
        Meta {
            rule: "stage spellings: every expression AST of the C05 families is rendered in its all-unabbreviated and all-abbreviated base spelling and in EVERY spelling one deviation away from each base: each abbreviation toggled at each site (child:: <-> omitted, attribute:: <-> @, /descendant-or-self::node()/ <-> //, self::node() <-> ., parent::node() <-> ..), each numeric predicate [n] <-> [position()=n], redundant parentheses around each sub-expression in turn, white space at each interior token gap in turn, at all gaps at once (space; tab+newline). All spellings of one AST must give the implementation the same result on every document (and the reference value says which side is wrong). Stage grammar: for all ordered pairs of the 14 binary operators and operand triples from {0,1,2,3,true(),false(),'a','',/r/a,/r/b}, `x op1 y op2 z` must evaluate like the parenthesisation the grammar prescribes (precedence, left associativity); unary minus against every operator; text(), node(), comment(), processing-instruction() at every place a step may begin (start, after / // | ( [ , and operators) against child::T; lexical disambiguation of div, mod, and, or, text, node, comment as element names and of * as name test vs operator. Non-trivial = the implementation returned a value.",
            bounds_quick: "spellings: C05 quick expression set x 3 documents; grammar: operand pool without 3 and ''",
            bounds_thorough: "spellings: C05 thorough expression set x 10 documents; grammar: full operand pool",
            assumptions: &["white space is inserted only between tokens (never inside //, .., ::, a QName, a number or after $)"],
            unbounded_total: false,
        }
    }
}
