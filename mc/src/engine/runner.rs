//! Parent-side orchestration (sharding, supervision, known-finding matching, evidence, replay)
//! and the worker loop.

use super::proto::{esc, unesc, J};
use super::{guard, Check, Finding, Sink, Tier};
use std::collections::{BTreeMap, BTreeSet, HashSet};
use std::io::{BufRead, BufReader, Write};
use std::process::{Command, Stdio};
use std::sync::mpsc;
use std::sync::{Arc, Mutex};
use std::time::{Duration, Instant};

pub const VERIF_ROOT: &str = "/verif";

// ---------------------------------------------------------------------------------------------
// worker

extern "C" {
    fn setrlimit(resource: i32, rlim: *const [u64; 2]) -> i32;
}

pub fn limit_address_space(bytes: u64) {
    // RLIMIT_AS = 9 on Linux
    let lim = [bytes, bytes];
    unsafe {
        setrlimit(9, &lim as *const [u64; 2]);
    }
}

pub fn read_input_file(path: &str) -> Vec<String> {
    if path.is_empty() || path == "-" {
        return vec![];
    }
    let f = std::fs::File::open(path).expect("input file");
    BufReader::new(f)
        .lines()
        .map(|l| unesc(&l.expect("line")))
        .collect()
}

/// `xmc worker <id> <tier> <stage> <i> <n> <from> <careful> <input-file|->`
pub fn worker_main(check: &dyn Check, args: &[String]) -> i32 {
    let tier = Tier::parse(&args[0]).expect("tier");
    let stage = &args[1];
    let i: u64 = args[2].parse().unwrap();
    let n: u64 = args[3].parse().unwrap();
    let from: u64 = args[4].parse().unwrap();
    let careful = args[5] == "1";
    let input = read_input_file(&args[6]);
    limit_address_space(8 << 30);
    super::install_quiet_panic_hook();

    let space = check.prepare(stage, tier, &input);
    let len = space.len();
    let stdout = std::io::stdout();
    let mut sink = Sink::new(Box::new(std::io::BufWriter::new(stdout)), false);
    let mut sent = Checkpoint::default();
    let mut last_hb = Instant::now() - Duration::from_secs(1);
    let mut idx = from;
    let mut rss_tick = Instant::now();
    // align to shard
    while idx % n != i {
        idx += 1;
    }
    while idx < len {
        if careful || last_hb.elapsed() >= Duration::from_millis(5) {
            sent.flush_delta(&mut sink);
            sink.heartbeat(idx);
            last_hb = Instant::now();
        }
        sink.cur = idx;
        let r = guard(|| space.run(idx, &mut sink));
        if let Err(msg) = r {
            let _ = writeln!(sink.out, "E\t{}\t{}", idx, esc(&msg));
        }
        idx += n;
        // the subject leaks (reference cycles between a document and its nodes): a worker that has grown
        // hands the rest of its shard to a fresh process instead of running into the address-space limit
        if idx < len && cases_since_rss_check(&mut rss_tick) && resident_bytes() > recycle_rss() {
            sent.flush_delta(&mut sink);
            for s in sink.samples.clone() {
                let _ = writeln!(sink.out, "X\t{}", esc(&super::sink::truncate(&s, 1500)));
            }
            let _ = writeln!(sink.out, "R\t{}", idx);
            let _ = sink.out.flush();
            return 0;
        }
    }
    sent.flush_delta(&mut sink);
    for s in sink.samples.clone() {
        let _ = writeln!(sink.out, "X\t{}", esc(&super::sink::truncate(&s, 1500)));
    }
    let _ = writeln!(sink.out, "D");
    let _ = sink.out.flush();
    0
}

/// user + system CPU time of a process so far, in seconds
fn process_cpu_seconds(pid: u32) -> Option<f64> {
    let s = std::fs::read_to_string(format!("/proc/{}/stat", pid)).ok()?;
    let rest = &s[s.rfind(')')? + 1..];
    let f: Vec<&str> = rest.split_whitespace().collect();
    let utime: f64 = f.get(11)?.parse().ok()?;
    let stime: f64 = f.get(12)?.parse().ok()?;
    Some((utime + stime) / 100.0)
}

const RECYCLE_RSS: u64 = 2 << 30;

fn recycle_rss() -> u64 {
    std::env::var("XMC_RECYCLE_RSS").ok().and_then(|v| v.parse().ok()).unwrap_or(RECYCLE_RSS)
}

/// at most one look at /proc per 200 ms
fn cases_since_rss_check(tick: &mut Instant) -> bool {
    if tick.elapsed() >= Duration::from_millis(200) {
        *tick = Instant::now();
        true
    } else {
        false
    }
}

fn resident_bytes() -> u64 {
    std::fs::read_to_string("/proc/self/statm")
        .ok()
        .and_then(|s| s.split_whitespace().nth(1).and_then(|x| x.parse::<u64>().ok()))
        .map(|pages| pages * 4096)
        .unwrap_or(0)
}

#[derive(Default)]
struct Checkpoint {
    counters: BTreeMap<String, u64>,
    sets: BTreeMap<String, BTreeSet<String>>,
}

impl Checkpoint {
    fn flush_delta(&mut self, sink: &mut Sink) {
        let mut lines = vec![];
        for (k, v) in &sink.counters {
            let prev = self.counters.get(k).copied().unwrap_or(0);
            if *v > prev {
                lines.push(format!("C\t{}\t{}", esc(k), v - prev));
                self.counters.insert(k.clone(), *v);
            }
        }
        for (k, s) in &sink.sets {
            let prev = self.sets.entry(k.clone()).or_default();
            for v in s {
                if !prev.contains(v) {
                    lines.push(format!("U\t{}\t{}", esc(k), esc(v)));
                    prev.insert(v.clone());
                }
            }
        }
        for l in lines {
            let _ = writeln!(sink.out, "{}", l);
        }
    }
}

// ---------------------------------------------------------------------------------------------
// parent

#[derive(Default)]
struct Agg {
    counters: BTreeMap<String, u64>,
    sets: BTreeMap<String, BTreeSet<String>>,
    samples: Vec<String>,
    findings: Vec<(String, u64, Finding)>, // stage, idx, finding
    finding_keys: HashSet<(String, u64, String)>,
    successors: BTreeMap<String, String>, // key -> payload (first seen, smallest payload kept)
    machinery_errors: Vec<String>,
    crashes: u64,
    pending_crashes: Vec<(String, u64, String, String)>,
}

enum Outcome {
    Done,
    /// the worker asked to be replaced; the shard continues at this case
    Recycle(u64),
    Crashed(String),
    Hung,
}

fn run_child(
    exe: &str,
    id: &str,
    tier: Tier,
    stage: &str,
    i: u64,
    n: u64,
    from: u64,
    careful: bool,
    input_file: &str,
    cap: f64,
    agg: &Arc<Mutex<Agg>>,
) -> (Outcome, Option<u64>) {
    let mut child = Command::new(exe)
        .arg("worker")
        .arg(id)
        .arg(tier.name())
        .arg(stage)
        .arg(i.to_string())
        .arg(n.to_string())
        .arg(from.to_string())
        .arg(if careful { "1" } else { "0" })
        .arg(if input_file.is_empty() { "-" } else { input_file })
        .stdin(Stdio::null())
        .stdout(Stdio::piped())
        .stderr(Stdio::piped())
        .spawn()
        .expect("spawn worker");
    let stdout = child.stdout.take().unwrap();
    let stderr = child.stderr.take().unwrap();
    let (tx, rx) = mpsc::channel::<String>();
    let reader = std::thread::spawn(move || {
        let r = BufReader::new(stdout);
        for line in r.split(b'\n') {
            match line {
                Ok(l) => {
                    let s = String::from_utf8_lossy(&l).to_string();
                    if tx.send(s).is_err() {
                        break;
                    }
                }
                Err(_) => break,
            }
        }
    });
    let err_reader = std::thread::spawn(move || {
        let mut s = String::new();
        let mut r = BufReader::new(stderr);
        let mut buf = String::new();
        while let Ok(k) = r.read_line(&mut buf) {
            if k == 0 {
                break;
            }
            if s.len() < 4000 {
                s.push_str(&buf);
            }
            buf.clear();
        }
        s
    });

    let mut last_b: Option<u64> = None;
    let mut done = false;
    let mut recycle_at: Option<u64> = None;
    let mut hung = false;
    let stage_s = stage.to_string();
    // a worker first reads its input file and prepares its space (on a loaded machine, with a frontier
    // of tens of thousands of states, that alone can take longer than one case): the per-case cap
    // applies from the first heartbeat on
    let mut started = false;
    // The cap is a cap on the work of one case, not on the patience of the host: when no heartbeat arrives within the
    // cap, the CPU time the worker has consumed since (about) its last heartbeat decides.  A worker that was given less
    // than the cap of processor time (a loaded machine) is waited for; only after 20 caps of wall-clock time without a
    // heartbeat is it given up regardless.
    let pid = child.id();
    let mut cpu_sample = 0.0f64;
    let mut cpu_sampled_at = Instant::now();
    let mut last_progress = Instant::now();
    let mut wait = cap.max(300.0);
    loop {
        match rx.recv_timeout(Duration::from_secs_f64(wait)) {
            Ok(line) => {
                let mut parts = line.split('\t');
                match parts.next() {
                    Some("B") => {
                        started = true;
                        last_b = parts.next().and_then(|x| x.parse().ok());
                        last_progress = Instant::now();
                        wait = cap;
                        if cpu_sampled_at.elapsed() >= Duration::from_secs(1) {
                            if let Some(c) = process_cpu_seconds(pid) {
                                cpu_sample = c;
                            }
                            cpu_sampled_at = Instant::now();
                        }
                    }
                    Some("D") => {
                        done = true;
                    }
                    Some("R") => {
                        recycle_at = parts.next().and_then(|x| x.parse().ok());
                    }
                    Some("C") => {
                        let k = unesc(parts.next().unwrap_or(""));
                        let v: u64 = parts.next().and_then(|x| x.parse().ok()).unwrap_or(0);
                        let mut a = agg.lock().unwrap();
                        *a.counters.entry(k).or_insert(0) += v;
                    }
                    Some("U") => {
                        let k = unesc(parts.next().unwrap_or(""));
                        let v = unesc(parts.next().unwrap_or(""));
                        let mut a = agg.lock().unwrap();
                        let s = a.sets.entry(k).or_default();
                        if s.len() < 400 {
                            s.insert(v);
                        }
                    }
                    Some("X") => {
                        let v = unesc(parts.next().unwrap_or(""));
                        let mut a = agg.lock().unwrap();
                        if a.samples.len() < 6 && !a.samples.contains(&v) {
                            a.samples.push(v);
                        }
                    }
                    Some("S") => {
                        let k = unesc(parts.next().unwrap_or(""));
                        let v = unesc(parts.next().unwrap_or(""));
                        let mut a = agg.lock().unwrap();
                        match a.successors.get(&k) {
                            Some(old) if (old.len(), old.as_str()) <= (v.len(), v.as_str()) => {}
                            _ => {
                                a.successors.insert(k, v);
                            }
                        }
                    }
                    Some("F") => {
                        let idx: u64 = parts.next().and_then(|x| x.parse().ok()).unwrap_or(0);
                        let f = Finding {
                            sig: unesc(parts.next().unwrap_or("")),
                            what: unesc(parts.next().unwrap_or("")),
                            case: unesc(parts.next().unwrap_or("")),
                            expected: unesc(parts.next().unwrap_or("")),
                            observed: unesc(parts.next().unwrap_or("")),
                        };
                        let mut a = agg.lock().unwrap();
                        let key = (stage_s.clone(), idx, format!("{}|{}", f.sig, f.case));
                        if a.finding_keys.insert(key) {
                            a.findings.push((stage_s.clone(), idx, f));
                        }
                    }
                    Some("E") => {
                        let idx = parts.next().unwrap_or("?").to_string();
                        let msg = unesc(parts.next().unwrap_or(""));
                        let mut a = agg.lock().unwrap();
                        if a.machinery_errors.len() < 20 {
                            a.machinery_errors
                                .push(format!("stage {} case {}: harness panic: {}", stage_s, idx, msg));
                        }
                    }
                    _ => {}
                }
            }
            Err(mpsc::RecvTimeoutError::Timeout) => {
                let limit = if started { cap } else { cap.max(300.0) };
                let used = process_cpu_seconds(pid).map(|c| c - cpu_sample);
                let starved = matches!(used, Some(u) if u < 0.9 * limit);
                if starved && last_progress.elapsed().as_secs_f64() < 20.0 * limit {
                    wait = (limit - used.unwrap_or(0.0)).max(1.0);
                    continue;
                }
                hung = true;
                let _ = child.kill();
                break;
            }
            Err(mpsc::RecvTimeoutError::Disconnected) => break,
        }
    }
    let status = child.wait();
    let _ = reader.join();
    let errtxt = err_reader.join().unwrap_or_default();
    if hung {
        return (Outcome::Hung, last_b);
    }
    if done {
        return (Outcome::Done, last_b);
    }
    if let Some(k) = recycle_at {
        return (Outcome::Recycle(k), last_b);
    }
    let desc = match status {
        Ok(st) => {
            use std::os::unix::process::ExitStatusExt;
            if let Some(sig) = st.signal() {
                format!("signal {}", sig)
            } else {
                format!("exit {}", st.code().unwrap_or(-1))
            }
        }
        Err(e) => format!("wait error {}", e),
    };
    let tail: String = errtxt.lines().rev().take(3).collect::<Vec<_>>().join(" | ");
    (Outcome::Crashed(format!("{} [{}]", desc, tail)), last_b)
}

fn crash_class(desc: &str, errtxt_hint: &str) -> String {
    let all = format!("{} {}", desc, errtxt_hint);
    if all.contains("stack overflow") || all.contains("signal 11") || all.contains("signal 6") && all.contains("overflow") {
        "ABORT(stack-overflow)".to_string()
    } else if all.contains("memory allocation") || all.contains("signal 9") {
        "OOM".to_string()
    } else {
        let d: String = desc.split(' ').take(2).collect::<Vec<_>>().join("-");
        format!("ABORT({})", d)
    }
}

fn supervise_shard(
    check: &dyn Check,
    exe: &str,
    tier: Tier,
    stage: &str,
    i: u64,
    n: u64,
    len: u64,
    input_file: &str,
    agg: &Arc<Mutex<Agg>>,
) {
    let cap = check.case_cap(tier);
    let mut from = i;
    let mut careful = false;
    let mut crashes = 0;
    let mut recycles = 0u64;
    while from < len {
        let (out, last_b) = run_child(exe, check.id(), tier, stage, i, n, from, careful, input_file, cap, agg);
        match out {
            Outcome::Done => return,
            Outcome::Recycle(k) => {
                from = k;
                careful = false;
                recycles += 1;
                let _ = recycles;
                continue;
            }
            Outcome::Crashed(_) | Outcome::Hung if last_b.is_none() => {
                let mut a = agg.lock().unwrap();
                let why = match out {
                    Outcome::Crashed(d) => d,
                    _ => "hung".to_string(),
                };
                a.machinery_errors
                    .push(format!("stage {} shard {}/{}: worker failed before its first case: {}", stage, i, n, why));
                return;
            }
            Outcome::Crashed(_) | Outcome::Hung if !careful => {
                // re-run from the last heartbeat, one heartbeat per case, to pin the case
                from = last_b.unwrap();
                careful = true;
            }
            Outcome::Crashed(desc) => {
                let k = last_b.unwrap();
                let class = crash_class(&desc, "");
                record_crash(stage, k, &class, &desc, agg);
                crashes += 1;
                from = k + n;
                careful = false;
            }
            Outcome::Hung => {
                let k = last_b.unwrap();
                let class = format!("HANG(cap {}s)", cap);
                record_crash(stage, k, &class, "no progress within the per-case cap; worker killed", agg);
                crashes += 1;
                from = k + n;
                careful = false;
            }
        }
        if crashes >= 40 {
            let mut a = agg.lock().unwrap();
            a.machinery_errors.push(format!(
                "stage {} shard {}/{}: more than 40 crashing cases, shard abandoned at case {}",
                stage, i, n, from
            ));
            return;
        }
    }
}

fn record_crash(stage: &str, idx: u64, class: &str, detail: &str, agg: &Arc<Mutex<Agg>>) {
    let mut a = agg.lock().unwrap();
    a.pending_crashes.push((stage.to_string(), idx, class.to_string(), detail.to_string()));
}

fn resolve_crash(stage: &str, idx: u64, space: &dyn super::Space, class: &str, detail: &str, a: &mut Agg) {
    let case = space.describe(idx);
    a.crashes += 1;
    let f = Finding {
        sig: format!("crash/{}/{}", class, crash_feature(&case)),
        what: format!("worker process died or stalled on this case: {}", class),
        case,
        expected: "a value or an error".to_string(),
        observed: format!("{} ({})", class, detail),
    };
    a.findings.push((stage.to_string(), idx, f));
}

/// Coarse feature of a crashing case: its first line, digits folded, so that size families collapse.
fn crash_feature(case: &str) -> String {
    let first = case.lines().next().unwrap_or("");
    let mut s: String = first.chars().take(60).collect();
    s = s.chars().map(|c| if c.is_ascii_digit() { '#' } else { c }).collect();
    while s.contains("##") {
        s = s.replace("##", "#");
    }
    s
}

// ---------------------------------------------------------------------------------------------
// known findings

pub struct Known {
    pub property: String,
    pub pattern: String,
    pub what: String,
}

pub fn load_known() -> Vec<Known> {
    let path = format!("{}/known_findings.txt", VERIF_ROOT);
    let mut v = vec![];
    if let Ok(txt) = std::fs::read_to_string(&path) {
        for line in txt.lines() {
            let line = line.trim();
            if let Some(rest) = line.strip_prefix("known:") {
                // known: property=C05 sig=<pattern> :: what
                let rest = rest.trim();
                let (head, what) = rest.split_once(" :: ").unwrap_or((rest, ""));
                let mut property = String::new();
                let mut pattern = String::new();
                if let Some(p) = head.strip_prefix("property=") {
                    if let Some((pid, tail)) = p.split_once(' ') {
                        property = pid.to_string();
                        if let Some(sig) = tail.trim().strip_prefix("sig=") {
                            pattern = sig.to_string();
                        }
                    }
                }
                if !property.is_empty() && !pattern.is_empty() {
                    v.push(Known { property, pattern, what: what.to_string() });
                }
            }
        }
    }
    v
}

pub fn sig_matches(pattern: &str, sig: &str) -> bool {
    if let Some(p) = pattern.strip_suffix('*') {
        sig.starts_with(p)
    } else {
        pattern == sig
    }
}

// ---------------------------------------------------------------------------------------------

pub fn n_workers() -> u64 {
    std::env::var("XMC_WORKERS")
        .ok()
        .and_then(|v| v.parse().ok())
        .unwrap_or_else(|| std::thread::available_parallelism().map(|n| n.get() as u64).unwrap_or(8))
        .max(1)
}

pub fn check_main(check: &'static dyn Check, tier: Tier) -> i32 {
    let t0 = Instant::now();
    let id = check.id();
    let exe = std::env::current_exe().unwrap().to_string_lossy().to_string();
    let seed: i64 = std::env::var("VERIF_SEED").ok().and_then(|v| v.parse().ok()).unwrap_or(0);
    let run_dir = format!("{}/target/xmc-run/{}-{}", VERIF_ROOT, id, std::process::id());
    let _ = std::fs::create_dir_all(&run_dir);
    let agg = Arc::new(Mutex::new(Agg::default()));
    let mut stage_stats = vec![];
    let mut input: Vec<String> = vec![];
    let mut total_len = 0u64;
    let stages = check.stages(tier);
    let mut stage_inputs: BTreeMap<String, Vec<String>> = BTreeMap::new();
    for stage in &stages {
        let ts = Instant::now();
        let takes = check.stage_takes_input(stage);
        let stage_input: Vec<String> = if takes { input.clone() } else { vec![] };
        let input_file = if takes {
            let p = format!("{}/{}.in", run_dir, stage);
            let mut f = std::io::BufWriter::new(std::fs::File::create(&p).unwrap());
            for l in &stage_input {
                let _ = writeln!(f, "{}", esc(l));
            }
            let _ = f.flush();
            p
        } else {
            String::new()
        };
        let space = check.prepare(stage, tier, &stage_input);
        let len = space.len();
        total_len += len;
        agg.lock().unwrap().successors.clear();
        let n = n_workers().min(len.max(1));
        std::thread::scope(|s| {
            for i in 0..n {
                let agg = &agg;
                let exe = &exe;
                let input_file = &input_file;
                s.spawn(move || {
                    // rotate shard start order by seed: results are order independent
                    supervise_shard(check, exe, tier, stage, (i + (seed.unsigned_abs() % n)) % n, n, len, input_file, agg);
                });
            }
        });
        {
            let mut a = agg.lock().unwrap();
            let pend = std::mem::take(&mut a.pending_crashes);
            for (st, idx, class, detail) in pend {
                resolve_crash(&st, idx, &*space, &class, &detail, &mut a);
            }
        }
        let succ: Vec<String> = agg.lock().unwrap().successors.values().cloned().collect();
        stage_stats.push((stage.clone(), len, succ.len() as u64, ts.elapsed().as_secs_f64()));
        if takes {
            stage_inputs.insert(stage.clone(), stage_input);
        }
        input = succ;
        eprintln!(
            "[{}] stage {}: {} cases, {} successor states, {:.1}s",
            id,
            stage,
            len,
            input.len(),
            ts.elapsed().as_secs_f64()
        );
    }
    let _ = std::fs::remove_dir_all(&run_dir);

    let a = agg.lock().unwrap();
    // ---- classify findings
    let known = load_known();
    let mut known_hits: BTreeMap<usize, (u64, String)> = BTreeMap::new();
    let mut unknown: BTreeMap<String, Vec<&(String, u64, Finding)>> = BTreeMap::new();
    for rec in &a.findings {
        let sig = &rec.2.sig;
        let mut hit = None;
        for (ki, k) in known.iter().enumerate() {
            if k.property == id && sig_matches(&k.pattern, sig) {
                hit = Some(ki);
                break;
            }
        }
        match hit {
            Some(ki) => {
                let e = known_hits.entry(ki).or_insert((0, first_line(&rec.2.case)));
                e.0 += 1;
            }
            None => unknown.entry(sig.clone()).or_default().push(rec),
        }
    }
    for (ki, (n, witness)) in &known_hits {
        let k = &known[*ki];
        println!(
            "KNOWN-FINDING: property={} {} ({} cases; sig={}; witness: {})",
            id,
            k.what,
            n,
            k.pattern,
            super::sink::truncate(witness, 160)
        );
    }
    let replay_dir = format!("{}/replays/{}", VERIF_ROOT, id);
    let mut nviol = 0u64;
    if !unknown.is_empty() {
        let _ = std::fs::create_dir_all(&replay_dir);
    }
    for (k, (sig, recs)) in unknown.iter().enumerate() {
        nviol += recs.len() as u64;
        if k >= 25 {
            continue;
        }
        // smallest case first: the shortest case text is the easiest to read
        let rec = recs.iter().min_by_key(|r| (r.2.case.len(), r.1)).unwrap();
        let path = format!("{}/{}-{}.txt", replay_dir, tier.name(), k);
        let mut txt = String::new();
        txt.push_str(&format!("property: {}\ntier: {}\nstage: {}\n", id, tier.name(), rec.0));
        if let Some(inp) = stage_inputs.get(&rec.0) {
            // BFS stage: the case is one frontier state; carry it so replay needs no search
            if let Some(l) = inp.get(rec.1 as usize) {
                txt.push_str(&format!("input: {}\nidx: 0\n", esc(l)));
            } else {
                txt.push_str(&format!("idx: {}\n", rec.1));
            }
        } else {
            txt.push_str(&format!("idx: {}\n", rec.1));
        }
        txt.push_str(&format!("sig: {}\ncases-with-this-signature: {}\nwhat: {}\n", esc(sig), recs.len(), esc(&rec.2.what)));
        txt.push_str(&format!("--- case\n{}\n--- expected\n{}\n--- observed\n{}\n", rec.2.case, rec.2.expected, rec.2.observed));
        let _ = std::fs::write(&path, txt);
        println!("VIOLATION property={} replay={}", id, path);
        println!("  sig={} cases={} what={}", sig, recs.len(), super::sink::truncate(&rec.2.what, 200));
    }
    if let Ok(pat) = std::env::var("XMC_SHOW") {
        let mut shown = 0;
        for (sig, recs) in unknown.iter() {
            if sig.contains(&pat) && shown < 3 {
                shown += 1;
                let rec = recs.iter().min_by_key(|r| (r.2.case.len(), r.1)).unwrap();
                eprintln!("=== {} ({} cases)\n--- case\n{}\n--- expected\n{}\n--- observed\n{}\n", sig, recs.len(), rec.2.case, rec.2.expected, rec.2.observed);
            }
        }
    }
    if std::env::var("XMC_SUMMARY").is_ok() {
        for (sig, recs) in unknown.iter() {
            let rec = recs.iter().min_by_key(|r| (r.2.case.len(), r.1)).unwrap();
            eprintln!("SIG {}\t{}\t{}", recs.len(), sig, super::sink::truncate(&first_line(&rec.2.case), 150));
        }
    }
    if unknown.len() > 25 {
        println!("  ({} further distinct violation signatures not written out)", unknown.len() - 25);
    }
    for e in &a.machinery_errors {
        eprintln!("MACHINERY-ERROR: {}", e);
    }

    // ---- evidence
    let meta = check.meta();
    let cnt = |k: &str| a.counters.get(k).copied().unwrap_or(0);
    let wall = t0.elapsed().as_secs_f64();
    let mut cov = vec![
        ("states".to_string(), J::U(cnt("states").max(1))),
        ("transitions".to_string(), J::U(cnt("transitions").max(1))),
        ("traces_validated_against_impl".to_string(), J::U(cnt("validated"))),
        ("evaluations".to_string(), J::U(cnt("transitions").max(1))),
        ("distinct_nontrivial".to_string(), J::U(cnt("nontrivial"))),
        ("rule".to_string(), J::s(meta.rule)),
        (
            "bounds".to_string(),
            J::s(tier.pick(meta.bounds_quick, meta.bounds_thorough)),
        ),
        (
            "exhaustive".to_string(),
            J::B(a.machinery_errors.is_empty()),
        ),
        ("exhaustive_within_bounds_only".to_string(), J::B(!meta.unbounded_total)),
        ("enumerated_cases".to_string(), J::U(total_len)),
        (
            "samples".to_string(),
            J::A(a.samples.iter().map(|s| J::s(s)).collect()),
        ),
        (
            "stages".to_string(),
            J::A(stage_stats
                .iter()
                .map(|(s, l, su, t)| {
                    J::O(vec![
                        ("stage".to_string(), J::s(s)),
                        ("cases".to_string(), J::U(*l)),
                        ("new_states".to_string(), J::U(*su)),
                        ("wall_s".to_string(), J::F(*t)),
                    ])
                })
                .collect()),
        ),
        (
            "counters".to_string(),
            J::O(a.counters.iter().map(|(k, v)| (k.clone(), J::U(*v))).collect()),
        ),
        (
            "distinct_observed".to_string(),
            J::O(a
                .sets
                .iter()
                .map(|(k, s)| {
                    (
                        k.clone(),
                        J::O(vec![
                            ("count".to_string(), J::U(s.len() as u64)),
                            ("values".to_string(), J::A(s.iter().take(40).map(|x| J::s(x)).collect())),
                        ]),
                    )
                })
                .collect()),
        ),
        ("worker_crashes_or_hangs".to_string(), J::U(a.crashes)),
        (
            "known_findings_hit".to_string(),
            J::A(known_hits
                .iter()
                .map(|(ki, (n, _))| {
                    J::O(vec![
                        ("sig".to_string(), J::s(&known[*ki].pattern)),
                        ("cases".to_string(), J::U(*n)),
                    ])
                })
                .collect()),
        ),
        (
            "machinery_errors".to_string(),
            J::A(a.machinery_errors.iter().map(|x| J::s(x)).collect()),
        ),
    ];
    if cov.iter().any(|(k, v)| k == "samples" && matches!(v, J::A(x) if x.is_empty())) {
        // never leave samples empty: describe case 0 of the first stage
        let sp = check.prepare(&stages[0], tier, &[]);
        if sp.len() > 0 {
            for (k, v) in cov.iter_mut() {
                if k == "samples" {
                    *v = J::A(vec![J::s(&sp.describe(0))]);
                }
            }
        }
    }
    let ev = J::O(vec![
        ("property_id".to_string(), J::s(id)),
        ("tier".to_string(), J::s(tier.name())),
        ("seed".to_string(), J::I(seed)),
        ("level".to_string(), J::s("model_checking")),
        ("coverage".to_string(), J::O(cov)),
        (
            "assumptions".to_string(),
            J::A(meta.assumptions.iter().map(|x| J::s(x)).collect()),
        ),
        ("wall_s".to_string(), J::F(wall)),
        ("violations".to_string(), J::I(nviol as i64)),
    ]);
    let _ = std::fs::create_dir_all(format!("{}/evidence", VERIF_ROOT));
    let _ = std::fs::write(format!("{}/evidence/{}.json", VERIF_ROOT, id), ev.to_string());
    // the last run of each tier is kept beside it, so that a quick run does not erase what the
    // thorough tier covered
    let _ = std::fs::create_dir_all(format!("{}/evidence/by-tier", VERIF_ROOT));
    let _ = std::fs::write(format!("{}/evidence/by-tier/{}.{}.json", VERIF_ROOT, id, tier.name()), ev.to_string());

    eprintln!(
        "[{}] {} tier: {} cases, {} executions, {} validated, {} known-finding cases, {} violations, {:.1}s",
        id,
        tier.name(),
        total_len,
        cnt("transitions"),
        cnt("validated"),
        known_hits.values().map(|x| x.0).sum::<u64>(),
        nviol,
        wall
    );
    if !a.machinery_errors.is_empty() {
        return 2;
    }
    if nviol > 0 {
        1
    } else {
        0
    }
}

fn first_line(s: &str) -> String {
    s.lines().next().unwrap_or("").to_string()
}

// ---------------------------------------------------------------------------------------------
// replay

pub fn replay_main(lookup: &dyn Fn(&str) -> Option<&'static dyn Check>, path: &str) -> i32 {
    let txt = match std::fs::read_to_string(path) {
        Ok(t) => t,
        Err(e) => {
            eprintln!("cannot read {}: {}", path, e);
            return 2;
        }
    };
    let mut prop = String::new();
    let mut tier = Tier::Quick;
    let mut stage = String::new();
    let mut idx = 0u64;
    let mut input: Vec<String> = vec![];
    for l in txt.lines() {
        if l.starts_with("--- case") {
            break;
        }
        if let Some(v) = l.strip_prefix("property: ") {
            prop = v.to_string();
        } else if let Some(v) = l.strip_prefix("tier: ") {
            tier = Tier::parse(v).unwrap_or(Tier::Quick);
        } else if let Some(v) = l.strip_prefix("stage: ") {
            stage = v.to_string();
        } else if let Some(v) = l.strip_prefix("idx: ") {
            idx = v.parse().unwrap_or(0);
        } else if let Some(v) = l.strip_prefix("input: ") {
            input.push(unesc(v));
        }
    }
    let check = match lookup(&prop) {
        Some(c) => c,
        None => {
            eprintln!("unknown property {}", prop);
            return 2;
        }
    };
    super::install_quiet_panic_hook();
    let space = check.prepare(&stage, tier, &input);
    println!("replaying {} stage {} case {}:\n{}", prop, stage, idx, space.describe(idx));
    let mut outs = vec![];
    for _round in 0..2 {
        let mut sink = Sink::new(Box::new(std::io::sink()), true);
        sink.cur = idx;
        let r = guard(|| space.run(idx, &mut sink));
        if let Err(m) = r {
            println!("harness panic: {}", m);
            return 2;
        }
        let mut o = String::new();
        for (_, f) in &sink.findings {
            o.push_str(&format!(
                "FINDING sig={}\n  what: {}\n  expected: {}\n  observed: {}\n",
                f.sig, f.what, f.expected, f.observed
            ));
        }
        outs.push(o);
    }
    if outs[0] != outs[1] {
        println!("NON-DETERMINISTIC replay (machinery error)");
        return 2;
    }
    if outs[0].is_empty() {
        println!("no finding: the property holds on this case");
        0
    } else {
        print!("{}", outs[0]);
        1
    }
}
