//! Worker-side result sink: counters, small value sets, samples, findings, successor states.

use super::proto::esc;
use std::collections::{BTreeMap, BTreeSet};
use std::io::Write;

#[derive(Clone, Debug)]
pub struct Finding {
    /// `<kind>/<site>/<features>` — the property id is prefixed by the parent.
    pub sig: String,
    /// one-line human description of what fails
    pub what: String,
    /// the failing case, written out (input text, expression, history …)
    pub case: String,
    pub expected: String,
    pub observed: String,
}

pub struct Sink {
    pub out: Box<dyn Write>,
    pub counters: BTreeMap<String, u64>,
    pub sets: BTreeMap<String, BTreeSet<String>>,
    pub samples: Vec<String>,
    pub findings: Vec<(u64, Finding)>,
    pub successors: Vec<(String, String)>,
    pub cur: u64,
    /// when true findings/successors are kept in memory (replay mode), else streamed
    pub keep: bool,
    pub max_samples: usize,
}

impl Sink {
    pub fn new(out: Box<dyn Write>, keep: bool) -> Sink {
        Sink {
            out,
            counters: BTreeMap::new(),
            sets: BTreeMap::new(),
            samples: vec![],
            findings: vec![],
            successors: vec![],
            cur: 0,
            keep,
            max_samples: 2,
        }
    }

    pub fn count(&mut self, name: &str, n: u64) {
        if let Some(c) = self.counters.get_mut(name) {
            *c += n;
        } else {
            self.counters.insert(name.to_string(), n);
        }
    }

    /// Record a value in a small named set (distinct outcomes etc.); capped at 200 values.
    pub fn note(&mut self, set: &str, val: &str) {
        let s = self.sets.entry(set.to_string()).or_default();
        if s.len() < 200 {
            s.insert(val.to_string());
        }
    }

    pub fn sample(&mut self, s: impl FnOnce() -> String) {
        if self.samples.len() < self.max_samples {
            let v = s();
            self.samples.push(v);
        }
    }

    pub fn finding(&mut self, f: Finding) {
        self.count("findings", 1);
        if self.keep {
            self.findings.push((self.cur, f));
        } else {
            let _ = writeln!(
                self.out,
                "F\t{}\t{}\t{}\t{}\t{}\t{}",
                self.cur,
                esc(&f.sig),
                esc(&f.what),
                esc(&truncate(&f.case, 4000)),
                esc(&truncate(&f.expected, 3000)),
                esc(&truncate(&f.observed, 3000))
            );
        }
    }

    /// E2: a successor state (canonical key + the history that reaches it).
    pub fn successor(&mut self, key: String, payload: String) {
        if self.keep {
            self.successors.push((key, payload));
        } else {
            let _ = writeln!(self.out, "S\t{}\t{}", esc(&key), esc(&payload));
        }
    }

    pub fn heartbeat(&mut self, idx: u64) {
        let _ = writeln!(self.out, "B\t{}", idx);
        let _ = self.out.flush();
    }

    pub fn finish(&mut self) {
        for (k, v) in &self.counters {
            let _ = writeln!(self.out, "C\t{}\t{}", esc(k), v);
        }
        for (k, s) in &self.sets {
            for v in s {
                let _ = writeln!(self.out, "U\t{}\t{}", esc(k), esc(v));
            }
        }
        for s in &self.samples {
            let _ = writeln!(self.out, "X\t{}", esc(&truncate(s, 1500)));
        }
        let _ = writeln!(self.out, "D");
        let _ = self.out.flush();
    }
}

pub fn truncate(s: &str, n: usize) -> String {
    if s.chars().count() <= n {
        s.to_string()
    } else {
        let mut t: String = s.chars().take(n).collect();
        t.push_str("…[truncated]");
        t
    }
}
