//! Line protocol between worker and parent, and a tiny JSON writer (no external crates).

pub fn esc(s: &str) -> String {
    let mut o = String::with_capacity(s.len() + 8);
    for c in s.chars() {
        match c {
            '\\' => o.push_str("\\\\"),
            '\t' => o.push_str("\\t"),
            '\n' => o.push_str("\\n"),
            '\r' => o.push_str("\\r"),
            c if (c as u32) < 0x20 || c == '\u{7f}' || c == '\u{fffe}' || c == '\u{ffff}' => {
                o.push_str(&format!("\\u{{{:x}}}", c as u32))
            }
            c => o.push(c),
        }
    }
    o
}

pub fn unesc(s: &str) -> String {
    let mut o = String::with_capacity(s.len());
    let mut it = s.chars().peekable();
    while let Some(c) = it.next() {
        if c != '\\' {
            o.push(c);
            continue;
        }
        match it.next() {
            Some('\\') => o.push('\\'),
            Some('t') => o.push('\t'),
            Some('n') => o.push('\n'),
            Some('r') => o.push('\r'),
            Some('u') => {
                let mut hex = String::new();
                if it.peek() == Some(&'{') {
                    it.next();
                    for h in it.by_ref() {
                        if h == '}' {
                            break;
                        }
                        hex.push(h);
                    }
                }
                if let Some(ch) = u32::from_str_radix(&hex, 16).ok().and_then(char::from_u32) {
                    o.push(ch);
                }
            }
            Some(x) => {
                o.push('\\');
                o.push(x);
            }
            None => o.push('\\'),
        }
    }
    o
}

pub fn json_str(s: &str) -> String {
    let mut o = String::with_capacity(s.len() + 2);
    o.push('"');
    for c in s.chars() {
        match c {
            '"' => o.push_str("\\\""),
            '\\' => o.push_str("\\\\"),
            '\n' => o.push_str("\\n"),
            '\r' => o.push_str("\\r"),
            '\t' => o.push_str("\\t"),
            c if (c as u32) < 0x20 => o.push_str(&format!("\\u{:04x}", c as u32)),
            c if c == '\u{fffe}' || c == '\u{ffff}' => o.push_str(&format!("\\u{:04x}", c as u32)),
            c => o.push(c),
        }
    }
    o.push('"');
    o
}

/// Minimal JSON value for evidence files.
pub enum J {
    S(String),
    I(i64),
    U(u64),
    F(f64),
    B(bool),
    A(Vec<J>),
    O(Vec<(String, J)>),
}

impl J {
    pub fn s(x: &str) -> J {
        J::S(x.to_string())
    }
    pub fn render(&self, out: &mut String, ind: usize) {
        let pad = " ".repeat(ind);
        match self {
            J::S(s) => out.push_str(&json_str(s)),
            J::I(i) => out.push_str(&i.to_string()),
            J::U(i) => out.push_str(&i.to_string()),
            J::F(f) => {
                if f.is_finite() {
                    out.push_str(&format!("{:.3}", f))
                } else {
                    out.push('0')
                }
            }
            J::B(b) => out.push_str(if *b { "true" } else { "false" }),
            J::A(v) => {
                if v.is_empty() {
                    out.push_str("[]");
                    return;
                }
                out.push_str("[\n");
                for (i, x) in v.iter().enumerate() {
                    out.push_str(&pad);
                    out.push_str("  ");
                    x.render(out, ind + 2);
                    if i + 1 < v.len() {
                        out.push(',');
                    }
                    out.push('\n');
                }
                out.push_str(&pad);
                out.push(']');
            }
            J::O(v) => {
                if v.is_empty() {
                    out.push_str("{}");
                    return;
                }
                out.push_str("{\n");
                for (i, (k, x)) in v.iter().enumerate() {
                    out.push_str(&pad);
                    out.push_str("  ");
                    out.push_str(&json_str(k));
                    out.push_str(": ");
                    x.render(out, ind + 2);
                    if i + 1 < v.len() {
                        out.push(',');
                    }
                    out.push('\n');
                }
                out.push_str(&pad);
                out.push('}');
            }
        }
    }
    pub fn to_string(&self) -> String {
        let mut s = String::new();
        self.render(&mut s, 0);
        s.push('\n');
        s
    }
}

/// FNV-1a 64-bit, for state keys.
pub fn fnv64(s: &str) -> u64 {
    let mut h: u64 = 0xcbf29ce484222325;
    for b in s.as_bytes() {
        h ^= *b as u64;
        h = h.wrapping_mul(0x100000001b3);
    }
    h
}
