//! Engine: supervised, sharded, bounded-exhaustive exploration.
//!
//! A check is a sequence of *stages*; each stage is a finite, deterministically enumerated space of
//! cases (E1: abstract cases; E2: the frontier of an explicit-state search, one case per frontier
//! state, each case expanding that state by every enabled transition).  The parent process cuts a
//! stage into strided shards and runs each shard in a child `xmc worker` process (E3), so a panic
//! that escapes, a stack overflow, an OOM or a hang is an observation about one named case.

pub mod proto;
pub mod runner;
pub mod sink;

pub use sink::{Finding, Sink};

#[derive(Clone, Copy, Debug, PartialEq, Eq)]
pub enum Tier {
    Quick,
    Thorough,
}

impl Tier {
    pub fn parse(s: &str) -> Option<Tier> {
        match s {
            "quick" => Some(Tier::Quick),
            "thorough" => Some(Tier::Thorough),
            _ => None,
        }
    }
    pub fn name(self) -> &'static str {
        match self {
            Tier::Quick => "quick",
            Tier::Thorough => "thorough",
        }
    }
    pub fn pick<T>(self, q: T, t: T) -> T {
        match self {
            Tier::Quick => q,
            Tier::Thorough => t,
        }
    }
}

/// One finite space of cases (a stage, prepared).
pub trait Space {
    fn len(&self) -> u64;
    /// Execute case `idx` and report through the sink.
    fn run(&self, idx: u64, sink: &mut Sink);
    /// Human-readable rendering of the case (for replay artefacts / samples).
    fn describe(&self, idx: u64) -> String;
}

pub struct Meta {
    pub rule: &'static str,
    pub bounds_quick: &'static str,
    pub bounds_thorough: &'static str,
    pub assumptions: &'static [&'static str],
    /// true if the enumerated space is complete with no bound at all (only C18's code point part)
    pub unbounded_total: bool,
}

pub trait Check: Sync {
    fn id(&self) -> &'static str;
    /// Stage names in execution order.  A stage whose name starts with "bfs" receives as input the
    /// de-duplicated successor states emitted by the previous stage.
    fn stages(&self, tier: Tier) -> Vec<String>;
    fn prepare(&self, stage: &str, tier: Tier, input: &[String]) -> Box<dyn Space>;
    fn meta(&self) -> Meta;
    /// per-case wall cap in seconds for the supervisor
    fn case_cap(&self, tier: Tier) -> f64 {
        tier.pick(10.0, 20.0)
    }
    /// a stage may declare that it consumes the successors of the previous one
    fn stage_takes_input(&self, stage: &str) -> bool {
        stage.starts_with("bfs") && stage != "bfs0"
    }
}

// ---------------------------------------------------------------------------------------------
// panic capture

use std::cell::RefCell;
use std::panic::{self, AssertUnwindSafe};

thread_local! {
    static LAST_PANIC: RefCell<Option<String>> = const { RefCell::new(None) };
}

pub fn install_quiet_panic_hook() {
    panic::set_hook(Box::new(|info| {
        let loc = info
            .location()
            .map(|l| format!("{}:{}", l.file(), l.line()))
            .unwrap_or_default();
        let msg = if let Some(s) = info.payload().downcast_ref::<&str>() {
            s.to_string()
        } else if let Some(s) = info.payload().downcast_ref::<String>() {
            s.clone()
        } else {
            "<non-string panic>".to_string()
        };
        LAST_PANIC.with(|p| *p.borrow_mut() = Some(format!("{} @ {}", msg, loc)));
    }));
}

/// Run implementation code; a panic becomes `Err(message @ file:line)`.
pub fn guard<T>(f: impl FnOnce() -> T) -> Result<T, String> {
    match panic::catch_unwind(AssertUnwindSafe(f)) {
        Ok(v) => Ok(v),
        Err(_) => Err(LAST_PANIC
            .with(|p| p.borrow_mut().take())
            .unwrap_or_else(|| "<panic>".to_string())),
    }
}

/// Site of a panic message "msg @ /repo/x/src/lib.rs:123" -> "x/src/lib.rs" (line numbers are
/// dropped so that unrelated edits do not change signatures).
pub fn panic_site(msg: &str) -> String {
    if let Some(pos) = msg.rfind(" @ ") {
        let loc = &msg[pos + 3..];
        let file = loc.rsplit_once(':').map(|x| x.0).unwrap_or(loc);
        let file = file.strip_prefix("/repo/").unwrap_or(file);
        let head: String = msg[..pos].chars().take(40).collect();
        let head: String = head
            .chars()
            .map(|c| if c.is_ascii_digit() { '#' } else { c })
            .collect();
        format!("{}[{}]", file, head)
    } else {
        msg.chars().take(40).collect()
    }
}

/// CPU time consumed so far by the calling thread, in seconds (user time, from
/// /proc/thread-self/stat; 10 ms resolution).  The blow-up oracles of C03 and C06 compare the cost of
/// consecutive family members: CPU time, unlike wall-clock time, does not grow when the machine is
/// loaded by other work, so a slow host cannot fake super-polynomial growth.  `None` where /proc is
/// not available (the callers fall back to wall-clock time).
pub fn thread_cpu_seconds() -> Option<f64> {
    let s = std::fs::read_to_string("/proc/thread-self/stat").ok()?;
    // the command name (field 2) is parenthesised and may contain spaces: count fields after it
    let rest = &s[s.rfind(')')? + 1..];
    let f: Vec<&str> = rest.split_whitespace().collect();
    // rest starts at field 3 (state): utime is field 14, stime field 15
    let utime: f64 = f.get(11)?.parse().ok()?;
    let stime: f64 = f.get(12)?.parse().ok()?;
    // user time only: system time (page faults of a deep recursion's stack, allocator calls) grows with
    // the contention in the kernel when the machine is loaded, user time is the computation itself
    let _ = stime;
    Some(utime / 100.0)
}

/// A member of a hostile family went over the soft cap and looks super-polynomial against its
/// predecessor: measure both twice more and judge the medians of the three measurements of each.  A
/// genuine super-polynomial cost reproduces on every run; a stall of the host spoils one measurement
/// and leaves the median alone.
pub fn confirm_blowup(dt: f64, pt: f64, cap: f64, is_blowup: impl Fn(f64, f64) -> bool, mut rerun_big: impl FnMut() -> f64, mut rerun_small: impl FnMut() -> f64) -> Option<(f64, f64)> {
    if !(dt > cap && is_blowup(dt, pt)) {
        return None;
    }
    let mut big = vec![dt];
    let mut small = vec![pt];
    for _ in 0..2 {
        small.push(rerun_small());
        big.push(rerun_big());
    }
    big.sort_by(|a, b| a.partial_cmp(b).unwrap());
    small.sort_by(|a, b| a.partial_cmp(b).unwrap());
    let (dt, pt) = (big[1], small[1]);
    if dt > cap && is_blowup(dt, pt) {
        Some((dt, pt))
    } else {
        None
    }
}

/// a stopwatch on `thread_cpu_seconds`, wall-clock where that is unavailable
pub struct CpuWatch {
    cpu: Option<f64>,
    wall: std::time::Instant,
}

impl CpuWatch {
    pub fn start() -> CpuWatch {
        CpuWatch { cpu: thread_cpu_seconds(), wall: std::time::Instant::now() }
    }
    pub fn seconds(&self) -> f64 {
        match (self.cpu, thread_cpu_seconds()) {
            (Some(a), Some(b)) => b - a,
            _ => self.wall.elapsed().as_secs_f64(),
        }
    }
}
