//! Reference XPath 1.0: data model built from an abstract document, AST, renderer with spelling
//! choice points, evaluator and core function library.  Written from the Recommendation; shares no
//! code with the repository.  (DESIGN.md Appendix C.)

use super::adoc::*;

// ---------------------------------------------------------------------------------------------
// data model (XPath 1.0 §5)

#[derive(Clone, Copy, PartialEq, Eq, Debug, Hash, PartialOrd, Ord)]
pub enum XKind {
    Root,
    Elem,
    Attr,
    Ns,
    Text,
    Comment,
    PI,
}

#[derive(Clone, Debug)]
pub struct XNode {
    pub kind: XKind,
    pub parent: Option<usize>,
    pub children: Vec<usize>,
    pub attrs: Vec<usize>,
    pub nss: Vec<usize>,
    pub local: String,
    pub prefix: Option<String>,
    pub uri: Option<String>,
    pub value: String,
}

/// Nodes are stored in document order: an element, its namespace nodes, its attributes, its children.
#[derive(Clone, Debug, Default)]
pub struct XTree {
    pub nodes: Vec<XNode>,
}

pub const XML_NS: &str = "http://www.w3.org/XML/1998/namespace";

impl XTree {
    fn push(&mut self, kind: XKind, parent: Option<usize>, local: &str, prefix: Option<&str>, uri: Option<&str>, value: &str) -> usize {
        self.nodes.push(XNode {
            kind,
            parent,
            children: vec![],
            attrs: vec![],
            nss: vec![],
            local: local.to_string(),
            prefix: prefix.map(|s| s.to_string()),
            uri: uri.map(|s| s.to_string()),
            value: value.to_string(),
        });
        self.nodes.len() - 1
    }

    pub fn from_adoc(d: &ADoc) -> Result<XTree, String> {
        let mut t = XTree::default();
        let root = t.push(XKind::Root, None, "", None, None, "");
        let dtd = Dtd::new(d);
        let misc = |t: &mut XTree, n: &ANode| -> Option<usize> {
            match n {
                ANode::Comment(c) => Some(t.push(XKind::Comment, Some(root), "", None, None, c)),
                ANode::PI(tg, dt) => Some(t.push(XKind::PI, Some(root), tg, None, None, dt.as_deref().unwrap_or(""))),
                _ => None,
            }
        };
        for n in d.pre.iter().chain(d.mid.iter()) {
            if let Some(i) = misc(&mut t, n) {
                t.nodes[root].children.push(i);
            }
        }
        let scope = vec![(Some("xml".to_string()), XML_NS.to_string())];
        let e = t.elem(&d.root, root, &scope, &dtd)?;
        t.nodes[root].children.push(e);
        for n in d.post.iter() {
            if let Some(i) = misc(&mut t, n) {
                t.nodes[root].children.push(i);
            }
        }
        Ok(t)
    }

    fn elem(&mut self, e: &AElem, parent: usize, inherited: &[(Option<String>, String)], dtd: &Dtd) -> Result<usize, String> {
        let attrs = dtd.attributes(e).map_err(|x| format!("{:?}", x))?;
        // namespace declarations on this element (written or defaulted)
        let mut scope: Vec<(Option<String>, String)> = inherited.to_vec();
        for (name, value, _) in &attrs {
            if name == "xmlns" {
                scope.retain(|s| s.0.is_some());
                if !value.is_empty() {
                    scope.push((None, value.clone()));
                }
            } else if let Some(p) = name.strip_prefix("xmlns:") {
                scope.retain(|s| s.0.as_deref() != Some(p));
                scope.push((Some(p.to_string()), value.clone()));
            }
        }
        let lookup = |p: Option<&str>| -> Option<String> { scope.iter().find(|s| s.0.as_deref() == p).map(|s| s.1.clone()) };
        let (p, l) = split_name(&e.name);
        let uri = match p {
            Some(p) => Some(lookup(Some(p)).ok_or_else(|| format!("unbound prefix {}", p))?),
            None => lookup(None),
        };
        let me = self.push(XKind::Elem, Some(parent), l, p, uri.as_deref(), "");
        let mut sorted = scope.clone();
        sorted.sort();
        for (p, u) in &sorted {
            let n = self.push(XKind::Ns, Some(me), p.as_deref().unwrap_or(""), None, None, u);
            self.nodes[me].nss.push(n);
        }
        for (name, value, _) in &attrs {
            if is_ns_attr(name) {
                continue;
            }
            let (p, l) = split_name(name);
            let uri = match p {
                Some(p) => Some(lookup(Some(p)).ok_or_else(|| format!("unbound prefix {}", p))?),
                None => None,
            };
            let a = self.push(XKind::Attr, Some(me), l, p, uri.as_deref(), value);
            self.nodes[me].attrs.push(a);
        }
        let mut run = String::new();
        let mut in_run = false;
        let flush = |t: &mut XTree, run: &mut String, in_run: &mut bool| {
            if *in_run && !run.is_empty() {
                let n = t.push(XKind::Text, Some(me), "", None, None, run);
                t.nodes[me].children.push(n);
            }
            run.clear();
            *in_run = false;
        };
        for c in &e.children {
            match c {
                ANode::Text(s) => {
                    run.push_str(&eol(s));
                    in_run = true;
                }
                ANode::CData(s) => {
                    run.push_str(&eol(s));
                    in_run = true;
                }
                ANode::CharRef(ch) => {
                    run.push(*ch);
                    in_run = true;
                }
                ANode::EntRef(n) => {
                    run.push_str(&dtd.expand_content(n, &mut vec![]).map_err(|x| format!("{:?}", x))?);
                    in_run = true;
                }
                ANode::Comment(s) => {
                    flush(self, &mut run, &mut in_run);
                    let n = self.push(XKind::Comment, Some(me), "", None, None, s);
                    self.nodes[me].children.push(n);
                }
                ANode::PI(tg, dt) => {
                    flush(self, &mut run, &mut in_run);
                    let n = self.push(XKind::PI, Some(me), tg, None, None, dt.as_deref().unwrap_or(""));
                    self.nodes[me].children.push(n);
                }
                ANode::Elem(x) => {
                    flush(self, &mut run, &mut in_run);
                    let n = self.elem(x, me, &scope, dtd)?;
                    self.nodes[me].children.push(n);
                }
            }
        }
        flush(self, &mut run, &mut in_run);
        Ok(me)
    }

    pub fn string_value(&self, i: usize) -> String {
        let n = &self.nodes[i];
        match n.kind {
            XKind::Root | XKind::Elem => {
                let mut s = String::new();
                self.collect_text(i, &mut s);
                s
            }
            _ => n.value.clone(),
        }
    }

    fn collect_text(&self, i: usize, out: &mut String) {
        for &c in &self.nodes[i].children {
            match self.nodes[c].kind {
                XKind::Text => out.push_str(&self.nodes[c].value),
                XKind::Elem => self.collect_text(c, out),
                _ => {}
            }
        }
    }

    /// qualified name as written (name() function)
    pub fn qname(&self, i: usize) -> String {
        let n = &self.nodes[i];
        match (&n.prefix, n.kind) {
            (Some(p), XKind::Elem) | (Some(p), XKind::Attr) => format!("{}:{}", p, n.local),
            _ => n.local.clone(),
        }
    }

    pub fn descendants(&self, i: usize, out: &mut Vec<usize>) {
        for &c in &self.nodes[i].children {
            out.push(c);
            self.descendants(c, out);
        }
    }

    pub fn ancestors(&self, i: usize) -> Vec<usize> {
        let mut v = vec![];
        let mut cur = self.nodes[i].parent;
        while let Some(p) = cur {
            v.push(p);
            cur = self.nodes[p].parent;
        }
        v
    }

    /// human-readable, stable description of a node (for dumps)
    pub fn describe(&self, i: usize) -> String {
        let n = &self.nodes[i];
        match n.kind {
            XKind::Root => "/".to_string(),
            XKind::Elem => format!("{}#{}", self.qname(i), i),
            XKind::Attr => format!("@{}#{}", self.qname(i), n.parent.unwrap_or(0)),
            XKind::Ns => format!("ns({}={})#{}", n.local, n.value, n.parent.unwrap_or(0)),
            XKind::Text => format!("text({:?})#{}", n.value, i),
            XKind::Comment => format!("comment({:?})#{}", n.value, i),
            XKind::PI => format!("pi({})#{}", n.local, i),
        }
    }
}

// ---------------------------------------------------------------------------------------------
// AST

#[derive(Clone, Copy, PartialEq, Eq, Debug, Hash)]
pub enum Axis {
    Ancestor,
    AncestorOrSelf,
    Attribute,
    Child,
    Descendant,
    DescendantOrSelf,
    Following,
    FollowingSibling,
    Namespace,
    Parent,
    Preceding,
    PrecedingSibling,
    SelfAxis,
}

pub const AXES: &[Axis] = &[
    Axis::Child,
    Axis::Descendant,
    Axis::Parent,
    Axis::Ancestor,
    Axis::FollowingSibling,
    Axis::PrecedingSibling,
    Axis::Following,
    Axis::Preceding,
    Axis::Attribute,
    Axis::Namespace,
    Axis::SelfAxis,
    Axis::DescendantOrSelf,
    Axis::AncestorOrSelf,
];

impl Axis {
    pub fn name(self) -> &'static str {
        match self {
            Axis::Ancestor => "ancestor",
            Axis::AncestorOrSelf => "ancestor-or-self",
            Axis::Attribute => "attribute",
            Axis::Child => "child",
            Axis::Descendant => "descendant",
            Axis::DescendantOrSelf => "descendant-or-self",
            Axis::Following => "following",
            Axis::FollowingSibling => "following-sibling",
            Axis::Namespace => "namespace",
            Axis::Parent => "parent",
            Axis::Preceding => "preceding",
            Axis::PrecedingSibling => "preceding-sibling",
            Axis::SelfAxis => "self",
        }
    }
    pub fn reverse(self) -> bool {
        matches!(self, Axis::Ancestor | Axis::AncestorOrSelf | Axis::Preceding | Axis::PrecedingSibling)
    }
}

#[derive(Clone, PartialEq, Debug, Hash, Eq)]
pub enum NodeTest {
    Any,
    Name(String),
    NsAny(String),
    Node,
    Text,
    Comment,
    PI(Option<String>),
}

#[derive(Clone, PartialEq, Debug, Hash, Eq)]
pub struct Step {
    pub axis: Axis,
    pub test: NodeTest,
    pub preds: Vec<Expr>,
}

#[derive(Clone, Copy, PartialEq, Eq, Debug, Hash)]
pub enum Op {
    Or,
    And,
    Eq,
    Ne,
    Lt,
    Le,
    Gt,
    Ge,
    Add,
    Sub,
    Mul,
    Div,
    Mod,
    Union,
}

impl Op {
    pub fn text(self) -> &'static str {
        match self {
            Op::Or => "or",
            Op::And => "and",
            Op::Eq => "=",
            Op::Ne => "!=",
            Op::Lt => "<",
            Op::Le => "<=",
            Op::Gt => ">",
            Op::Ge => ">=",
            Op::Add => "+",
            Op::Sub => "-",
            Op::Mul => "*",
            Op::Div => "div",
            Op::Mod => "mod",
            Op::Union => "|",
        }
    }
    pub fn prec(self) -> u8 {
        match self {
            Op::Or => 1,
            Op::And => 2,
            Op::Eq | Op::Ne => 3,
            Op::Lt | Op::Le | Op::Gt | Op::Ge => 4,
            Op::Add | Op::Sub => 5,
            Op::Mul | Op::Div | Op::Mod => 6,
            Op::Union => 8,
        }
    }
}

pub const BIN_OPS: &[Op] = &[Op::Or, Op::And, Op::Eq, Op::Ne, Op::Lt, Op::Le, Op::Gt, Op::Ge, Op::Add, Op::Sub, Op::Mul, Op::Div, Op::Mod, Op::Union];

#[derive(Clone, PartialEq, Debug, Hash, Eq)]
pub enum Expr {
    Bin(Op, Box<Expr>, Box<Expr>),
    Neg(Box<Expr>),
    Path { absolute: bool, steps: Vec<Step> },
    /// `(base)[preds]/steps`; a step `descendant-or-self::node()` right after the base renders as `//`
    Filter { base: Box<Expr>, preds: Vec<Expr>, steps: Vec<Step> },
    Num(String),
    Str(String),
    Call(String, Vec<Expr>),
    Var(String),
}

pub fn step(axis: Axis, test: NodeTest) -> Step {
    Step { axis, test, preds: vec![] }
}
pub fn stepp(axis: Axis, test: NodeTest, preds: Vec<Expr>) -> Step {
    Step { axis, test, preds }
}
pub fn name(n: &str) -> NodeTest {
    NodeTest::Name(n.to_string())
}
pub fn dslash() -> Step {
    step(Axis::DescendantOrSelf, NodeTest::Node)
}
pub fn path(absolute: bool, steps: Vec<Step>) -> Expr {
    Expr::Path { absolute, steps }
}
pub fn num(n: &str) -> Expr {
    Expr::Num(n.to_string())
}
pub fn lit(s: &str) -> Expr {
    Expr::Str(s.to_string())
}
pub fn call(f: &str, args: Vec<Expr>) -> Expr {
    Expr::Call(f.to_string(), args)
}
pub fn bin(op: Op, a: Expr, b: Expr) -> Expr {
    Expr::Bin(op, Box::new(a), Box::new(b))
}
pub fn filter(base: Expr, preds: Vec<Expr>, steps: Vec<Step>) -> Expr {
    Expr::Filter { base: Box::new(base), preds, steps }
}

// ---------------------------------------------------------------------------------------------
// renderer

/// Spelling choices.  `abbrev` is the default for every abbreviation site; `flip_abbrev` /
/// `flip_numpred` / `paren_site` deviate at exactly one site (sites are numbered in rendering order).
#[derive(Clone, Debug, Default)]
pub struct Style {
    pub abbrev: bool,
    pub flip_abbrev: Option<usize>,
    /// render `[n]` as `[position()=n]` by default
    pub numpred_long: bool,
    pub flip_numpred: Option<usize>,
    /// wrap the n-th sub-expression in redundant parentheses
    pub paren_site: Option<usize>,
}

#[derive(Clone, Debug, Default)]
pub struct Sites {
    pub abbrev: usize,
    pub numpred: usize,
    pub paren: usize,
}

#[derive(Clone, Debug)]
pub struct Tok {
    pub s: String,
    pub binop: bool,
}

pub struct Renderer<'a> {
    style: &'a Style,
    pub sites: Sites,
    pub toks: Vec<Tok>,
}

fn is_numeric_literal(e: &Expr) -> Option<&str> {
    if let Expr::Num(n) = e {
        Some(n)
    } else {
        None
    }
}

impl<'a> Renderer<'a> {
    fn abbr(&mut self) -> bool {
        let i = self.sites.abbrev;
        self.sites.abbrev += 1;
        self.style.abbrev != (self.style.flip_abbrev == Some(i))
    }
    fn t(&mut self, s: &str) {
        self.toks.push(Tok { s: s.to_string(), binop: false });
    }

    fn pred(&mut self, p: &Expr) {
        self.t("[");
        if let Some(n) = is_numeric_literal(p) {
            let i = self.sites.numpred;
            self.sites.numpred += 1;
            let long = self.style.numpred_long != (self.style.flip_numpred == Some(i));
            if long {
                self.t("position");
                self.t("(");
                self.t(")");
                self.t("=");
                self.t(n);
            } else {
                self.t(n);
            }
        } else {
            self.expr(p, 0);
        }
        self.t("]");
    }

    fn test(&mut self, test: &NodeTest) {
        match test {
            NodeTest::Any => self.t("*"),
            NodeTest::Name(n) => self.t(n),
            NodeTest::NsAny(p) => self.t(&format!("{}:*", p)),
            NodeTest::Node => {
                self.t("node");
                self.t("(");
                self.t(")")
            }
            NodeTest::Text => {
                self.t("text");
                self.t("(");
                self.t(")")
            }
            NodeTest::Comment => {
                self.t("comment");
                self.t("(");
                self.t(")")
            }
            NodeTest::PI(arg) => {
                self.t("processing-instruction");
                self.t("(");
                if let Some(a) = arg {
                    self.t(&quote(a));
                }
                self.t(")")
            }
        }
    }

    fn one_step(&mut self, s: &Step) {
        if s.preds.is_empty() && s.test == NodeTest::Node && matches!(s.axis, Axis::SelfAxis | Axis::Parent) {
            if self.abbr() {
                self.t(if s.axis == Axis::SelfAxis { "." } else { ".." });
                return;
            }
        } else if s.axis == Axis::Child {
            if !self.abbr() {
                self.t("child");
                self.t("::");
            }
        } else if s.axis == Axis::Attribute {
            if self.abbr() {
                self.t("@");
            } else {
                self.t("attribute");
                self.t("::");
            }
        }
        if !matches!(s.axis, Axis::Child | Axis::Attribute) {
            self.t(s.axis.name());
            self.t("::");
        }
        self.test(&s.test);
        for p in &s.preds {
            self.pred(p);
        }
    }

    /// steps joined by `/`; a bare `descendant-or-self::node()` step followed by another step may be `//`.
    /// `leading`: a separator is written before the first step (absolute path or after a filter base).
    fn steps(&mut self, steps: &[Step], leading: bool) {
        let mut i = 0;
        let mut need_sep = leading;
        while i < steps.len() {
            let s = &steps[i];
            let is_ds = s.axis == Axis::DescendantOrSelf && s.test == NodeTest::Node && s.preds.is_empty();
            if is_ds && need_sep && i + 1 < steps.len() && self.abbr() {
                self.t("//");
                i += 1;
                need_sep = false;
                continue;
            }
            if need_sep {
                self.t("/");
            }
            self.one_step(s);
            need_sep = true;
            i += 1;
        }
    }

    fn prec_of(e: &Expr) -> u8 {
        match e {
            Expr::Bin(op, _, _) => op.prec(),
            Expr::Neg(_) => 7,
            _ => 9,
        }
    }

    pub fn expr(&mut self, e: &Expr, min_prec: u8) {
        let site = self.sites.paren;
        self.sites.paren += 1;
        let redundant = self.style.paren_site == Some(site);
        let need = Self::prec_of(e) < min_prec;
        if need || redundant {
            self.t("(");
        }
        match e {
            Expr::Bin(op, a, b) => {
                self.expr(a, op.prec());
                self.toks.push(Tok { s: op.text().to_string(), binop: true });
                self.expr(b, op.prec() + 1);
            }
            Expr::Neg(a) => {
                self.t("-");
                self.expr(a, 7);
            }
            Expr::Path { absolute, steps } => {
                if *absolute && steps.is_empty() {
                    self.t("/");
                } else {
                    self.steps(steps, *absolute);
                }
            }
            Expr::Filter { base, preds, steps } => {
                // the base must be a PrimaryExpr
                match &**base {
                    Expr::Num(_) | Expr::Str(_) | Expr::Call(..) | Expr::Var(_) => self.expr(base, 0),
                    _ => {
                        self.t("(");
                        self.expr(base, 0);
                        self.t(")");
                    }
                }
                for p in preds {
                    self.pred(p);
                }
                self.steps(steps, true);
            }
            Expr::Num(n) => self.t(n),
            Expr::Str(s) => self.t(&quote(s)),
            Expr::Var(v) => self.t(&format!("${}", v)),
            Expr::Call(f, args) => {
                self.t(f);
                self.t("(");
                for (i, a) in args.iter().enumerate() {
                    if i > 0 {
                        self.t(",");
                    }
                    self.expr(a, 0);
                }
                self.t(")");
            }
        }
        if need || redundant {
            self.t(")");
        }
    }
}

pub fn quote(s: &str) -> String {
    if s.contains('\'') {
        format!("\"{}\"", s)
    } else {
        format!("'{}'", s)
    }
}

pub fn tokens(e: &Expr, style: &Style) -> (Vec<Tok>, Sites) {
    let mut r = Renderer { style, sites: Sites::default(), toks: vec![] };
    r.expr(e, 0);
    (r.toks, r.sites)
}

/// Join tokens: single spaces around binary operators, nothing elsewhere; `extra` adds white space at
/// the given interior gaps (gap g is between token g and g+1).
pub fn join(toks: &[Tok], extra: &dyn Fn(usize) -> Option<&'static str>) -> String {
    let mut s = String::new();
    for (i, t) in toks.iter().enumerate() {
        if i > 0 {
            if t.binop || toks[i - 1].binop {
                s.push(' ');
            }
            if let Some(w) = extra(i - 1) {
                s.push_str(w);
            }
        }
        s.push_str(&t.s);
    }
    s
}

pub fn render(e: &Expr, style: &Style) -> String {
    let (t, _) = tokens(e, style);
    join(&t, &|_| None)
}

/// canonical spelling: unabbreviated, `[n]` short
pub fn canonical(e: &Expr) -> String {
    render(e, &Style::default())
}

// ---------------------------------------------------------------------------------------------
// values and conversions (XPath 1.0 §3.4, §4)

#[derive(Clone, Debug, PartialEq)]
pub enum Value {
    Nodes(Vec<usize>),
    Bool(bool),
    Num(f64),
    Str(String),
}

#[derive(Clone, Debug, PartialEq)]
pub struct EvalErr(pub String);

thread_local! {
    /// the recorded deviation "negative zero is written -0" (known finding of C09, pinned by a test of
    /// the repository): with this switch the reference reproduces it, so that a difference can be
    /// attributed to exactly that deviation and to nothing else
    pub static NEG_ZERO_AS_MINUS_ZERO: std::cell::Cell<bool> = std::cell::Cell::new(false);
}

pub fn num_to_string(n: f64) -> String {
    if n.is_nan() {
        "NaN".into()
    } else if n == 0.0 {
        if n.is_sign_negative() && NEG_ZERO_AS_MINUS_ZERO.with(|c| c.get()) {
            return "-0".into();
        }
        "0".into()
    } else if n.is_infinite() {
        if n > 0.0 { "Infinity".into() } else { "-Infinity".into() }
    } else {
        // Rust prints the shortest decimal that round-trips, without an exponent
        format!("{}", n)
    }
}

pub fn string_to_num(s: &str) -> f64 {
    let t = s.trim_matches(|c| c == ' ' || c == '\t' || c == '\n' || c == '\r');
    let body = t.strip_prefix('-').unwrap_or(t);
    let ok = {
        let (int, frac) = match body.split_once('.') {
            Some((a, b)) => (a, Some(b)),
            None => (body, None),
        };
        let digits = |x: &str| x.chars().all(|c| c.is_ascii_digit());
        match frac {
            None => !int.is_empty() && digits(int),
            Some(f) => digits(int) && digits(f) && !(int.is_empty() && f.is_empty()),
        }
    };
    if !ok {
        return f64::NAN;
    }
    t.parse::<f64>().unwrap_or(f64::NAN)
}

pub fn xround(n: f64) -> f64 {
    if n.is_nan() || n.is_infinite() {
        return n;
    }
    if n == 0.0 {
        return n;
    }
    if n < 0.0 && n >= -0.5 {
        return -0.0;
    }
    // the closest integer, of two the one closer to positive infinity.  Not floor(n + 0.5): that addition rounds
    // (0.49999999999999994 + 0.5 == 1.0, and odd integers above 2^52 move).  f64::round is exact and rounds ties away
    // from zero, which is the wanted direction for positive ties only.
    if n.fract() == -0.5 {
        n.ceil()
    } else {
        n.round()
    }
}

fn is_xml_space(c: char) -> bool {
    c == ' ' || c == '\t' || c == '\n' || c == '\r'
}

// ---------------------------------------------------------------------------------------------
// evaluator

pub struct Env<'a> {
    pub tree: &'a XTree,
    /// caller bindings: (prefix or None for the default, uri)
    pub ns: Vec<(Option<String>, String)>,
}

#[derive(Clone, Copy)]
pub struct Ctx {
    pub node: usize,
    pub pos: usize,
    pub size: usize,
}

impl<'a> Env<'a> {
    pub fn eval_root(&self, e: &Expr) -> Result<Value, EvalErr> {
        // like the implementation's entry point: context node = root, no position / size
        self.eval(e, Ctx { node: 0, pos: 0, size: 0 })
    }

    fn t(&self) -> &XTree {
        self.tree
    }

    pub fn to_str(&self, v: &Value) -> String {
        match v {
            Value::Nodes(ns) => ns.first().map(|n| self.t().string_value(*n)).unwrap_or_default(),
            Value::Bool(b) => if *b { "true".into() } else { "false".into() },
            Value::Num(n) => num_to_string(*n),
            Value::Str(s) => s.clone(),
        }
    }
    pub fn to_num(&self, v: &Value) -> f64 {
        match v {
            Value::Num(n) => *n,
            Value::Bool(b) => if *b { 1.0 } else { 0.0 },
            Value::Str(s) => string_to_num(s),
            Value::Nodes(_) => string_to_num(&self.to_str(v)),
        }
    }
    pub fn to_bool(&self, v: &Value) -> bool {
        match v {
            Value::Bool(b) => *b,
            Value::Num(n) => !(*n == 0.0 || n.is_nan()),
            Value::Str(s) => !s.is_empty(),
            Value::Nodes(ns) => !ns.is_empty(),
        }
    }

    fn axis_nodes(&self, axis: Axis, n: usize) -> Vec<usize> {
        let t = self.t();
        let node = &t.nodes[n];
        let is_attr_or_ns = matches!(node.kind, XKind::Attr | XKind::Ns);
        // result in document order
        match axis {
            Axis::Child => node.children.clone(),
            Axis::Descendant => {
                let mut v = vec![];
                t.descendants(n, &mut v);
                v
            }
            Axis::DescendantOrSelf => {
                let mut v = vec![n];
                t.descendants(n, &mut v);
                v
            }
            Axis::Parent => node.parent.into_iter().collect(),
            Axis::Ancestor => {
                let mut v = t.ancestors(n);
                v.reverse();
                v
            }
            Axis::AncestorOrSelf => {
                let mut v = t.ancestors(n);
                v.reverse();
                v.push(n);
                v
            }
            Axis::Attribute => node.attrs.clone(),
            Axis::Namespace => node.nss.clone(),
            Axis::SelfAxis => vec![n],
            Axis::FollowingSibling | Axis::PrecedingSibling => {
                if is_attr_or_ns {
                    return vec![];
                }
                match node.parent {
                    None => vec![],
                    Some(p) => {
                        let sibs = &t.nodes[p].children;
                        let k = sibs.iter().position(|x| *x == n).unwrap();
                        if axis == Axis::FollowingSibling {
                            sibs[k + 1..].to_vec()
                        } else {
                            sibs[..k].to_vec()
                        }
                    }
                }
            }
            Axis::Following => {
                // all nodes after n in document order, excluding descendants, attributes and namespaces
                let mut desc = vec![];
                t.descendants(n, &mut desc);
                let start = if is_attr_or_ns { node.parent.unwrap() } else { n };
                let mut v = vec![];
                for i in 0..t.nodes.len() {
                    let k = t.nodes[i].kind;
                    if matches!(k, XKind::Attr | XKind::Ns | XKind::Root) {
                        continue;
                    }
                    if is_attr_or_ns {
                        // everything after the owner element's start tag that is not an ancestor
                        if i > start && !t.ancestors(n).contains(&i) {
                            v.push(i);
                        }
                    } else if i > n && !desc.contains(&i) {
                        v.push(i);
                    }
                }
                v
            }
            Axis::Preceding => {
                let anc = t.ancestors(n);
                let limit = if is_attr_or_ns { node.parent.unwrap() } else { n };
                let mut v = vec![];
                for i in 0..limit {
                    let k = t.nodes[i].kind;
                    if matches!(k, XKind::Attr | XKind::Ns | XKind::Root) {
                        continue;
                    }
                    if !anc.contains(&i) {
                        v.push(i);
                    }
                }
                v
            }
        }
    }

    fn resolve(&self, qname: &str, use_default: bool) -> Result<(String, Option<String>), EvalErr> {
        let (p, l) = split_name(qname);
        match p {
            Some(p) => match self.ns.iter().rev().find(|b| b.0.as_deref() == Some(p)) {
                Some(b) => Ok((l.to_string(), Some(b.1.clone()))),
                None => Err(EvalErr(format!("unbound-prefix:{}", p))),
            },
            None => {
                let d = if use_default { self.ns.iter().rev().find(|b| b.0.is_none()).map(|b| b.1.clone()) } else { None };
                Ok((l.to_string(), d))
            }
        }
    }

    fn test(&self, axis: Axis, test: &NodeTest, n: usize) -> Result<bool, EvalErr> {
        let node = &self.t().nodes[n];
        let principal = match axis {
            Axis::Attribute => XKind::Attr,
            Axis::Namespace => XKind::Ns,
            _ => XKind::Elem,
        };
        Ok(match test {
            NodeTest::Node => true,
            NodeTest::Text => node.kind == XKind::Text,
            NodeTest::Comment => node.kind == XKind::Comment,
            NodeTest::PI(None) => node.kind == XKind::PI,
            NodeTest::PI(Some(tg)) => node.kind == XKind::PI && node.local == *tg,
            NodeTest::Any => node.kind == principal,
            NodeTest::NsAny(p) => {
                let uri = match self.ns.iter().rev().find(|b| b.0.as_deref() == Some(p.as_str())) {
                    Some(b) => b.1.clone(),
                    None => return Err(EvalErr(format!("unbound-prefix:{}", p))),
                };
                node.kind == principal && node.uri.as_deref() == Some(uri.as_str())
            }
            NodeTest::Name(q) => {
                // the tool's extension: an unprefixed element name test uses the caller's default binding
                let (l, u) = self.resolve(q, principal == XKind::Elem)?;
                if principal == XKind::Ns {
                    node.kind == XKind::Ns && node.local == l
                } else {
                    node.kind == principal && node.local == l && node.uri == u
                }
            }
        })
    }

    fn apply_preds(&self, mut nodes: Vec<usize>, preds: &[Expr], reverse: bool) -> Result<Vec<usize>, EvalErr> {
        // `nodes` in document order; proximity position counts backwards on a reverse axis
        for p in preds {
            let size = nodes.len();
            let mut keep = vec![];
            for (k, n) in nodes.iter().enumerate() {
                let pos = if reverse { size - k } else { k + 1 };
                let v = self.eval(p, Ctx { node: *n, pos, size })?;
                let ok = match v {
                    Value::Num(x) => x == pos as f64,
                    other => self.to_bool(&other),
                };
                if ok {
                    keep.push(*n);
                }
            }
            nodes = keep;
        }
        Ok(nodes)
    }

    fn eval_steps(&self, start: Vec<usize>, steps: &[Step]) -> Result<Vec<usize>, EvalErr> {
        let mut cur = start;
        for s in steps {
            let mut next: Vec<usize> = vec![];
            for n in &cur {
                let mut cand = vec![];
                for c in self.axis_nodes(s.axis, *n) {
                    if self.test(s.axis, &s.test, c)? {
                        cand.push(c);
                    }
                }
                let kept = self.apply_preds(cand, &s.preds, s.axis.reverse())?;
                next.extend(kept);
            }
            next.sort();
            next.dedup();
            cur = next;
        }
        Ok(cur)
    }

    fn nodes_of(&self, v: Value, what: &str) -> Result<Vec<usize>, EvalErr> {
        match v {
            Value::Nodes(n) => Ok(n),
            _ => Err(EvalErr(format!("not-a-node-set:{}", what))),
        }
    }

    pub fn eval(&self, e: &Expr, c: Ctx) -> Result<Value, EvalErr> {
        match e {
            Expr::Num(n) => Ok(Value::Num(n.parse::<f64>().unwrap_or(f64::NAN))),
            Expr::Str(s) => Ok(Value::Str(s.clone())),
            Expr::Var(v) => Err(EvalErr(format!("variable:{}", v))),
            Expr::Neg(a) => Ok(Value::Num(-self.to_num(&self.eval(a, c)?))),
            Expr::Path { absolute, steps } => {
                let start = if *absolute { vec![0] } else { vec![c.node] };
                Ok(Value::Nodes(self.eval_steps(start, steps)?))
            }
            Expr::Filter { base, preds, steps } => {
                let v = self.eval(base, c)?;
                if preds.is_empty() && steps.is_empty() {
                    return Ok(v);
                }
                let nodes = self.nodes_of(v, "filter")?;
                let kept = self.apply_preds(nodes, preds, false)?;
                Ok(Value::Nodes(self.eval_steps(kept, steps)?))
            }
            Expr::Call(f, args) => self.call(f, args, c),
            Expr::Bin(op, a, b) => match op {
                Op::Or => {
                    if self.to_bool(&self.eval(a, c)?) {
                        return Ok(Value::Bool(true));
                    }
                    Ok(Value::Bool(self.to_bool(&self.eval(b, c)?)))
                }
                Op::And => {
                    if !self.to_bool(&self.eval(a, c)?) {
                        return Ok(Value::Bool(false));
                    }
                    Ok(Value::Bool(self.to_bool(&self.eval(b, c)?)))
                }
                Op::Union => {
                    let x = self.eval(a, c)?;
                    let y = self.eval(b, c)?;
                    let mut v = self.nodes_of(x, "union")?;
                    v.extend(self.nodes_of(y, "union")?);
                    v.sort();
                    v.dedup();
                    Ok(Value::Nodes(v))
                }
                Op::Add | Op::Sub | Op::Mul | Op::Div | Op::Mod => {
                    let x = self.to_num(&self.eval(a, c)?);
                    let y = self.to_num(&self.eval(b, c)?);
                    Ok(Value::Num(match op {
                        Op::Add => x + y,
                        Op::Sub => x - y,
                        Op::Mul => x * y,
                        Op::Div => x / y,
                        _ => x % y,
                    }))
                }
                _ => {
                    let x = self.eval(a, c)?;
                    let y = self.eval(b, c)?;
                    Ok(Value::Bool(self.compare(*op, &x, &y)))
                }
            },
        }
    }

    fn cmp_num(op: Op, x: f64, y: f64) -> bool {
        match op {
            Op::Eq => x == y,
            Op::Ne => x != y,
            Op::Lt => x < y,
            Op::Le => x <= y,
            Op::Gt => x > y,
            _ => x >= y,
        }
    }

    fn compare(&self, op: Op, x: &Value, y: &Value) -> bool {
        let t = self.t();
        let eqop = matches!(op, Op::Eq | Op::Ne);
        let cmp_str = |a: &str, b: &str| if op == Op::Eq { a == b } else { a != b };
        match (x, y) {
            (Value::Nodes(a), Value::Nodes(b)) => {
                for i in a {
                    for j in b {
                        let (s1, s2) = (t.string_value(*i), t.string_value(*j));
                        let r = if eqop { cmp_str(&s1, &s2) } else { Self::cmp_num(op, string_to_num(&s1), string_to_num(&s2)) };
                        if r {
                            return true;
                        }
                    }
                }
                false
            }
            (Value::Nodes(a), other) | (other, Value::Nodes(a)) => {
                let nodes_left = matches!(x, Value::Nodes(_));
                match other {
                    Value::Bool(b) => {
                        let nb = !a.is_empty();
                        let (l, r) = if nodes_left { (nb, *b) } else { (*b, nb) };
                        if eqop {
                            if op == Op::Eq { l == r } else { l != r }
                        } else {
                            Self::cmp_num(op, l as u8 as f64, r as u8 as f64)
                        }
                    }
                    Value::Num(n) => a.iter().any(|i| {
                        let v = string_to_num(&t.string_value(*i));
                        if nodes_left { Self::cmp_num(op, v, *n) } else { Self::cmp_num(op, *n, v) }
                    }),
                    Value::Str(s) => a.iter().any(|i| {
                        let sv = t.string_value(*i);
                        if eqop {
                            cmp_str(&sv, s)
                        } else {
                            let (l, r) = (string_to_num(&sv), string_to_num(s));
                            if nodes_left { Self::cmp_num(op, l, r) } else { Self::cmp_num(op, r, l) }
                        }
                    }),
                    Value::Nodes(_) => unreachable!(),
                }
            }
            _ => {
                if eqop {
                    if matches!(x, Value::Bool(_)) || matches!(y, Value::Bool(_)) {
                        let (l, r) = (self.to_bool(x), self.to_bool(y));
                        if op == Op::Eq { l == r } else { l != r }
                    } else if matches!(x, Value::Num(_)) || matches!(y, Value::Num(_)) {
                        Self::cmp_num(op, self.to_num(x), self.to_num(y))
                    } else {
                        cmp_str(&self.to_str(x), &self.to_str(y))
                    }
                } else {
                    Self::cmp_num(op, self.to_num(x), self.to_num(y))
                }
            }
        }
    }

    fn call(&self, f: &str, args: &[Expr], c: Ctx) -> Result<Value, EvalErr> {
        let t = self.t();
        let arity = |lo: usize, hi: usize| -> Result<(), EvalErr> {
            if args.len() < lo || args.len() > hi {
                Err(EvalErr(format!("arity:{}", f)))
            } else {
                Ok(())
            }
        };
        let ev = |i: usize| self.eval(&args[i], c);
        let s = |i: usize| -> Result<String, EvalErr> { Ok(self.to_str(&ev(i)?)) };
        let opt_node = |this: &Self| -> Result<Option<usize>, EvalErr> {
            if args.is_empty() {
                Ok(Some(c.node))
            } else {
                let v = this.eval(&args[0], c)?;
                Ok(this.nodes_of(v, f)?.first().copied())
            }
        };
        match f {
            "last" => {
                arity(0, 0)?;
                Ok(Value::Num(c.size as f64))
            }
            "position" => {
                arity(0, 0)?;
                Ok(Value::Num(c.pos as f64))
            }
            "count" => {
                arity(1, 1)?;
                Ok(Value::Num(self.nodes_of(ev(0)?, f)?.len() as f64))
            }
            "id" => Err(EvalErr("unsupported:id".into())),
            "local-name" => {
                arity(0, 1)?;
                Ok(Value::Str(match opt_node(self)? {
                    Some(n) if matches!(t.nodes[n].kind, XKind::Elem | XKind::Attr | XKind::PI | XKind::Ns) => t.nodes[n].local.clone(),
                    _ => String::new(),
                }))
            }
            "namespace-uri" => {
                arity(0, 1)?;
                Ok(Value::Str(match opt_node(self)? {
                    Some(n) if matches!(t.nodes[n].kind, XKind::Elem | XKind::Attr) => t.nodes[n].uri.clone().unwrap_or_default(),
                    _ => String::new(),
                }))
            }
            "name" => {
                arity(0, 1)?;
                Ok(Value::Str(match opt_node(self)? {
                    Some(n) if matches!(t.nodes[n].kind, XKind::Elem | XKind::Attr | XKind::PI | XKind::Ns) => t.qname(n),
                    _ => String::new(),
                }))
            }
            "string" => {
                arity(0, 1)?;
                Ok(Value::Str(if args.is_empty() { t.string_value(c.node) } else { s(0)? }))
            }
            "concat" => {
                if args.len() < 2 {
                    return Err(EvalErr("arity:concat".into()));
                }
                let mut o = String::new();
                for i in 0..args.len() {
                    o.push_str(&s(i)?);
                }
                Ok(Value::Str(o))
            }
            "starts-with" => {
                arity(2, 2)?;
                Ok(Value::Bool(s(0)?.starts_with(&s(1)?)))
            }
            "contains" => {
                arity(2, 2)?;
                Ok(Value::Bool(s(0)?.contains(&s(1)?)))
            }
            "substring-before" => {
                arity(2, 2)?;
                let (a, b) = (s(0)?, s(1)?);
                Ok(Value::Str(a.find(&b).map(|i| a[..i].to_string()).unwrap_or_default()))
            }
            "substring-after" => {
                arity(2, 2)?;
                let (a, b) = (s(0)?, s(1)?);
                Ok(Value::Str(a.find(&b).map(|i| a[i + b.len()..].to_string()).unwrap_or_default()))
            }
            "substring" => {
                arity(2, 3)?;
                let a: Vec<char> = s(0)?.chars().collect();
                let start = xround(self.to_num(&ev(1)?));
                let end = if args.len() == 3 { start + xround(self.to_num(&ev(2)?)) } else { f64::INFINITY };
                let mut o = String::new();
                for (i, ch) in a.iter().enumerate() {
                    let p = (i + 1) as f64;
                    if p >= start && p < end {
                        o.push(*ch);
                    }
                }
                Ok(Value::Str(o))
            }
            "string-length" => {
                arity(0, 1)?;
                let v = if args.is_empty() { t.string_value(c.node) } else { s(0)? };
                Ok(Value::Num(v.chars().count() as f64))
            }
            "normalize-space" => {
                arity(0, 1)?;
                let v = if args.is_empty() { t.string_value(c.node) } else { s(0)? };
                Ok(Value::Str(v.split(is_xml_space).filter(|x| !x.is_empty()).collect::<Vec<_>>().join(" ")))
            }
            "translate" => {
                arity(3, 3)?;
                let (a, from, to) = (s(0)?, s(1)?, s(2)?);
                let from: Vec<char> = from.chars().collect();
                let to: Vec<char> = to.chars().collect();
                let mut o = String::new();
                for ch in a.chars() {
                    match from.iter().position(|x| *x == ch) {
                        None => o.push(ch),
                        Some(i) => {
                            if let Some(r) = to.get(i) {
                                o.push(*r)
                            }
                        }
                    }
                }
                Ok(Value::Str(o))
            }
            "boolean" => {
                arity(1, 1)?;
                Ok(Value::Bool(self.to_bool(&ev(0)?)))
            }
            "not" => {
                arity(1, 1)?;
                Ok(Value::Bool(!self.to_bool(&ev(0)?)))
            }
            "true" => {
                arity(0, 0)?;
                Ok(Value::Bool(true))
            }
            "false" => {
                arity(0, 0)?;
                Ok(Value::Bool(false))
            }
            "lang" => {
                arity(1, 1)?;
                let want = s(0)?.to_ascii_lowercase();
                let mut cur = Some(c.node);
                if matches!(t.nodes[c.node].kind, XKind::Attr | XKind::Ns) {
                    cur = t.nodes[c.node].parent;
                }
                while let Some(n) = cur {
                    if let Some(a) = t.nodes[n].attrs.iter().find(|a| t.nodes[**a].local == "lang" && t.nodes[**a].uri.as_deref() == Some(XML_NS)) {
                        let have = t.nodes[*a].value.to_ascii_lowercase();
                        return Ok(Value::Bool(have == want || (have.starts_with(&want) && have[want.len()..].starts_with('-'))));
                    }
                    cur = t.nodes[n].parent;
                }
                Ok(Value::Bool(false))
            }
            "number" => {
                arity(0, 1)?;
                Ok(Value::Num(if args.is_empty() { string_to_num(&t.string_value(c.node)) } else { self.to_num(&ev(0)?) }))
            }
            "sum" => {
                arity(1, 1)?;
                let ns = self.nodes_of(ev(0)?, f)?;
                Ok(Value::Num(ns.iter().fold(0.0, |acc, n| acc + string_to_num(&t.string_value(*n)))))
            }
            "floor" => {
                arity(1, 1)?;
                Ok(Value::Num(self.to_num(&ev(0)?).floor()))
            }
            "ceiling" => {
                arity(1, 1)?;
                Ok(Value::Num(self.to_num(&ev(0)?).ceil()))
            }
            "round" => {
                arity(1, 1)?;
                Ok(Value::Num(xround(self.to_num(&ev(0)?))))
            }
            _ => Err(EvalErr(format!("unknown-function:{}", f))),
        }
    }
}

/// canonical dump of a value: node-sets as the list of node descriptions in document order
pub fn dump(t: &XTree, v: &Value) -> String {
    match v {
        Value::Nodes(ns) => format!("nodes[{}]", ns.iter().map(|n| t.describe(*n)).collect::<Vec<_>>().join(", ")),
        Value::Bool(b) => format!("boolean({})", b),
        Value::Num(n) => {
            if n.is_nan() {
                "number(NaN)".into()
            } else if *n == 0.0 {
                format!("number({}0)", if n.is_sign_negative() { "-" } else { "" })
            } else {
                format!("number({})", num_to_string(*n))
            }
        }
        Value::Str(s) => format!("string({:?})", s),
    }
}
