//! Abstract documents: the *model states* of the input-quantified properties (C01–C04, C10, C11,
//! C17).  An abstract document is rendered to concrete text (with surface-syntax choice points),
//! and its expected information set is computed from the abstract document itself.

use super::chars;
use crate::obs::{opt, q, View};

#[derive(Clone, Debug, PartialEq, Eq, Hash)]
pub enum Part {
    Text(String),
    CharRef(char),
    EntRef(String),
}

#[derive(Clone, Debug, PartialEq, Eq, Hash)]
pub struct AAttr {
    pub name: String,
    pub value: Vec<Part>,
}

#[derive(Clone, Debug, PartialEq, Eq, Hash)]
pub enum ANode {
    Elem(AElem),
    Text(String),
    CharRef(char),
    EntRef(String),
    CData(String),
    Comment(String),
    PI(String, Option<String>),
}

#[derive(Clone, Debug, PartialEq, Eq, Hash, Default)]
pub struct AElem {
    pub name: String,
    pub attrs: Vec<AAttr>,
    pub children: Vec<ANode>,
}

#[derive(Clone, Debug, PartialEq, Eq, Hash)]
pub enum ADefault {
    Required,
    Implied,
    Value { fixed: bool, value: Vec<Part> },
}

#[derive(Clone, Debug, PartialEq, Eq, Hash)]
pub struct AAttDef {
    pub name: String,
    /// attribute type as written: CDATA, ID, NMTOKENS, "(a|b)", "NOTATION (n)"
    pub ty: String,
    pub default: ADefault,
}

#[derive(Clone, Debug, PartialEq, Eq, Hash)]
pub enum ADecl {
    Entity { name: String, value: Vec<Part> },
    ExtEntity { name: String, public: Option<String>, system: String, ndata: Option<String> },
    Notation { name: String, public: Option<String>, system: Option<String> },
    AttList { elem: String, defs: Vec<AAttDef> },
    Element { name: String, spec: String },
    Comment(String),
    PI(String, Option<String>),
}

#[derive(Clone, Debug, PartialEq, Eq, Hash, Default)]
pub struct ADoctype {
    pub name: String,
    pub public: Option<String>,
    pub system: Option<String>,
    pub decls: Vec<ADecl>,
    /// `[` `]` present even when decls is empty
    pub subset: bool,
}

#[derive(Clone, Debug, PartialEq, Eq, Hash, Default)]
pub struct XmlDecl {
    pub version: String,
    pub encoding: Option<String>,
    pub standalone: Option<bool>,
}

#[derive(Clone, Debug, PartialEq, Eq, Hash, Default)]
pub struct ADoc {
    pub xmldecl: Option<XmlDecl>,
    /// comments / PIs before the DOCTYPE (or before the root if there is none)
    pub pre: Vec<ANode>,
    pub doctype: Option<ADoctype>,
    pub mid: Vec<ANode>,
    pub root: AElem,
    pub post: Vec<ANode>,
}

// ---------------------------------------------------------------------------------------------
// builders

pub fn el(name: &str, attrs: Vec<AAttr>, children: Vec<ANode>) -> AElem {
    AElem { name: name.to_string(), attrs, children }
}
pub fn at(name: &str, v: &str) -> AAttr {
    AAttr { name: name.to_string(), value: if v.is_empty() { vec![] } else { vec![Part::Text(v.to_string())] } }
}
pub fn atp(name: &str, value: Vec<Part>) -> AAttr {
    AAttr { name: name.to_string(), value }
}
pub fn tx(s: &str) -> ANode {
    ANode::Text(s.to_string())
}
pub fn e(name: &str, attrs: Vec<AAttr>, children: Vec<ANode>) -> ANode {
    ANode::Elem(el(name, attrs, children))
}
pub fn doc(root: AElem) -> ADoc {
    ADoc { root, ..Default::default() }
}

// ---------------------------------------------------------------------------------------------
// surface choices

/// A tape of choices: position i holds the option taken at the i-th choice point (0 = canonical).
/// Rendering with an empty tape discovers the choice points (their option counts are recorded).
#[derive(Default, Clone)]
pub struct Choices {
    pub tape: Vec<(usize, usize)>, // (choice point index, option)
    pub seen: Vec<usize>,          // option count per choice point, in rendering order
}

impl Choices {
    pub fn canonical() -> Choices {
        Choices::default()
    }
    pub fn with(tape: Vec<(usize, usize)>) -> Choices {
        Choices { tape, seen: vec![] }
    }
    fn choose(&mut self, n: usize) -> usize {
        let i = self.seen.len();
        self.seen.push(n);
        for (p, o) in &self.tape {
            if *p == i {
                return (*o).min(n.saturating_sub(1));
            }
        }
        0
    }
}

const GAP: &[&str] = &["", " ", "\n", "\t \r\n"];
const SEP: &[&str] = &[" ", "\n", "  ", "\t"];

fn quote_for(text_has_dq: bool, text_has_sq: bool, ch: &mut Choices) -> char {
    if text_has_dq && text_has_sq {
        // the model never builds such values; fall back to double quotes with &quot; handled by caller
        return '"';
    }
    if text_has_dq {
        return '\'';
    }
    if text_has_sq {
        return '"';
    }
    if ch.choose(2) == 0 {
        '"'
    } else {
        '\''
    }
}

fn render_charref(c: char, ch: &mut Choices) -> String {
    match ch.choose(6) {
        0 => format!("&#{};", c as u32),
        1 => format!("&#x{:X};", c as u32),
        2 => format!("&#x{:x};", c as u32),
        3 => format!("&#0{};", c as u32),
        // zero padding beyond the digits any code point needs
        4 => format!("&#x{:010X};", c as u32),
        _ => format!("&#{:012};", c as u32),
    }
}

fn render_parts(parts: &[Part], ch: &mut Choices, out: &mut String) {
    let dq = parts.iter().any(|p| matches!(p, Part::Text(t) if t.contains('"')));
    let sq = parts.iter().any(|p| matches!(p, Part::Text(t) if t.contains('\'')));
    let qc = quote_for(dq, sq, ch);
    out.push(qc);
    for p in parts {
        match p {
            Part::Text(t) => out.push_str(t),
            Part::CharRef(c) => out.push_str(&render_charref(*c, ch)),
            Part::EntRef(n) => {
                out.push('&');
                out.push_str(n);
                out.push(';');
            }
        }
    }
    out.push(qc);
}

fn render_literal(s: &str, ch: &mut Choices, out: &mut String) {
    let qc = quote_for(s.contains('"'), s.contains('\''), ch);
    out.push(qc);
    out.push_str(s);
    out.push(qc);
}

fn render_pi(t: &str, d: &Option<String>, out: &mut String) {
    out.push_str("<?");
    out.push_str(t);
    if let Some(d) = d {
        out.push(' ');
        out.push_str(d);
    }
    out.push_str("?>");
}

pub fn render_node(n: &ANode, ch: &mut Choices, out: &mut String) {
    match n {
        ANode::Elem(e) => render_elem(e, ch, out),
        ANode::Text(t) => out.push_str(t),
        ANode::CharRef(c) => out.push_str(&render_charref(*c, ch)),
        ANode::EntRef(n) => {
            out.push('&');
            out.push_str(n);
            out.push(';');
        }
        ANode::CData(t) => {
            out.push_str("<![CDATA[");
            out.push_str(t);
            out.push_str("]]>");
        }
        ANode::Comment(t) => {
            out.push_str("<!--");
            out.push_str(t);
            out.push_str("-->");
        }
        ANode::PI(t, d) => render_pi(t, d, out),
    }
}

pub fn render_elem(e: &AElem, ch: &mut Choices, out: &mut String) {
    out.push('<');
    out.push_str(&e.name);
    // attribute order: canonical, reversed, rotated
    let n = e.attrs.len();
    let order: Vec<usize> = if n >= 2 {
        match ch.choose(if n >= 3 { 3 } else { 2 }) {
            0 => (0..n).collect(),
            1 => (0..n).rev().collect(),
            _ => (0..n).map(|i| (i + 1) % n).collect(),
        }
    } else {
        (0..n).collect()
    };
    for i in order {
        let a = &e.attrs[i];
        out.push_str(SEP[ch.choose(SEP.len())]);
        out.push_str(&a.name);
        match ch.choose(4) {
            0 => out.push('='),
            1 => out.push_str(" = "),
            2 => out.push_str("\n="),
            _ => out.push_str("=\t"),
        }
        render_parts(&a.value, ch, out);
    }
    out.push_str(GAP[ch.choose(GAP.len())]);
    if e.children.is_empty() && ch.choose(2) == 0 {
        out.push_str("/>");
        return;
    }
    out.push('>');
    for c in &e.children {
        render_node(c, ch, out);
    }
    out.push_str("</");
    out.push_str(&e.name);
    out.push_str(GAP[ch.choose(GAP.len())]);
    out.push('>');
}

fn render_extid(public: &Option<String>, system: &Option<String>, ch: &mut Choices, out: &mut String) {
    match (public, system) {
        (Some(p), Some(s)) => {
            out.push_str(" PUBLIC");
            out.push_str(SEP[ch.choose(2)]);
            render_literal(p, ch, out);
            out.push_str(SEP[ch.choose(2)]);
            render_literal(s, ch, out);
        }
        (Some(p), None) => {
            out.push_str(" PUBLIC ");
            render_literal(p, ch, out);
        }
        (None, Some(s)) => {
            out.push_str(" SYSTEM");
            out.push_str(SEP[ch.choose(2)]);
            render_literal(s, ch, out);
        }
        (None, None) => {}
    }
}

pub fn render_decl(d: &ADecl, ch: &mut Choices, out: &mut String) {
    match d {
        ADecl::Entity { name, value } => {
            out.push_str("<!ENTITY");
            out.push_str(SEP[ch.choose(2)]);
            out.push_str(name);
            out.push_str(SEP[ch.choose(2)]);
            render_parts(value, ch, out);
            out.push_str(GAP[ch.choose(2)]);
            out.push('>');
        }
        ADecl::ExtEntity { name, public, system, ndata } => {
            out.push_str("<!ENTITY ");
            out.push_str(name);
            render_extid(public, &Some(system.clone()), ch, out);
            if let Some(n) = ndata {
                out.push_str(SEP[ch.choose(2)]);
                out.push_str("NDATA");
                out.push_str(SEP[ch.choose(2)]);
                out.push_str(n);
            }
            out.push_str(GAP[ch.choose(2)]);
            out.push('>');
        }
        ADecl::Notation { name, public, system } => {
            out.push_str("<!NOTATION ");
            out.push_str(name);
            render_extid(public, system, ch, out);
            out.push_str(GAP[ch.choose(2)]);
            out.push('>');
        }
        ADecl::AttList { elem, defs } => {
            out.push_str("<!ATTLIST ");
            out.push_str(elem);
            for d in defs {
                out.push_str(SEP[ch.choose(2)]);
                out.push_str(&d.name);
                out.push_str(SEP[ch.choose(2)]);
                out.push_str(&d.ty);
                out.push_str(SEP[ch.choose(2)]);
                match &d.default {
                    ADefault::Required => out.push_str("#REQUIRED"),
                    ADefault::Implied => out.push_str("#IMPLIED"),
                    ADefault::Value { fixed, value } => {
                        if *fixed {
                            out.push_str("#FIXED ");
                        }
                        render_parts(value, ch, out);
                    }
                }
            }
            out.push_str(GAP[ch.choose(2)]);
            out.push('>');
        }
        ADecl::Element { name, spec } => {
            out.push_str("<!ELEMENT ");
            out.push_str(name);
            out.push(' ');
            out.push_str(spec);
            out.push_str(GAP[ch.choose(2)]);
            out.push('>');
        }
        ADecl::Comment(t) => {
            out.push_str("<!--");
            out.push_str(t);
            out.push_str("-->");
        }
        ADecl::PI(t, d) => render_pi(t, d, out),
    }
}

pub fn render(d: &ADoc, ch: &mut Choices) -> String {
    let mut out = String::new();
    if let Some(x) = &d.xmldecl {
        out.push_str("<?xml version");
        out.push_str(["=", " = "][ch.choose(2)]);
        render_literal(&x.version, ch, &mut out);
        if let Some(e) = &x.encoding {
            out.push_str(" encoding=");
            render_literal(e, ch, &mut out);
        }
        if let Some(s) = x.standalone {
            out.push_str(SEP[ch.choose(2)]);
            out.push_str("standalone=");
            render_literal(if s { "yes" } else { "no" }, ch, &mut out);
        }
        out.push_str(GAP[ch.choose(2)]);
        out.push_str("?>");
    }
    for n in &d.pre {
        out.push_str(GAP[ch.choose(3)]);
        render_node(n, ch, &mut out);
    }
    if let Some(t) = &d.doctype {
        out.push_str(GAP[ch.choose(3)]);
        out.push_str("<!DOCTYPE");
        out.push_str(SEP[ch.choose(2)]);
        out.push_str(&t.name);
        render_extid(&t.public, &t.system, ch, &mut out);
        if t.subset || !t.decls.is_empty() {
            out.push_str(GAP[1 - ch.choose(2)]);
            out.push('[');
            for dcl in &t.decls {
                out.push_str(GAP[ch.choose(3)]);
                render_decl(dcl, ch, &mut out);
            }
            out.push_str(GAP[ch.choose(3)]);
            out.push(']');
        }
        out.push_str(GAP[ch.choose(2)]);
        out.push('>');
    }
    for n in &d.mid {
        out.push_str(GAP[ch.choose(3)]);
        render_node(n, ch, &mut out);
    }
    out.push_str(GAP[ch.choose(3)]);
    render_elem(&d.root, ch, &mut out);
    for n in &d.post {
        out.push_str(GAP[ch.choose(3)]);
        render_node(n, ch, &mut out);
    }
    out.push_str(GAP[ch.choose(3)]);
    out
}

pub fn render_canonical(d: &ADoc) -> String {
    render(d, &mut Choices::canonical())
}

/// The canonical rendering with every character reference spelled in hexadecimal (`&#xA;`).
pub fn render_hex_refs(d: &ADoc) -> String {
    let mut c0 = Choices::canonical();
    let _ = render(d, &mut c0);
    let tape: Vec<(usize, usize)> = c0.seen.iter().enumerate().filter(|(_, n)| **n == 6).map(|(i, _)| (i, 1)).collect();
    render(d, &mut Choices::with(tape))
}

/// All renderings within `k` deviations (k ≤ 2) of the canonical one; the canonical one first.
pub fn renderings(d: &ADoc, k: usize) -> Vec<String> {
    let mut c0 = Choices::canonical();
    let base = render(d, &mut c0);
    let seen = c0.seen.clone();
    let mut out = vec![base];
    if k >= 1 {
        for (i, n) in seen.iter().enumerate() {
            for o in 1..*n {
                out.push(render(d, &mut Choices::with(vec![(i, o)])));
            }
        }
    }
    if k >= 2 {
        for (i, n) in seen.iter().enumerate() {
            for o in 1..*n {
                for (j, m) in seen.iter().enumerate().skip(i + 1) {
                    for p in 1..*m {
                        out.push(render(d, &mut Choices::with(vec![(i, o), (j, p)])));
                    }
                }
            }
        }
    }
    let mut uniq = std::collections::HashSet::new();
    out.retain(|s| uniq.insert(s.clone()));
    out
}

// ---------------------------------------------------------------------------------------------
// semantics: entity tables, replacement text, attribute-value normalisation (XML 1.0 §3.3.3, §4.4, §4.5)

pub struct Dtd<'a> {
    pub doc: &'a ADoc,
}

#[derive(Debug, Clone, PartialEq)]
pub enum ExpandErr {
    Undeclared(String),
    Recursive(String),
    External(String),
    Unparsed(String),
}

impl<'a> Dtd<'a> {
    pub fn new(doc: &'a ADoc) -> Dtd<'a> {
        Dtd { doc }
    }

    fn decls(&self) -> &[ADecl] {
        self.doc.doctype.as_ref().map(|t| t.decls.as_slice()).unwrap_or(&[])
    }

    /// first declaration binds (XML 1.0 §4.2)
    pub fn entity(&self, name: &str) -> Option<&'a ADecl> {
        let decls: &'a [ADecl] = match &self.doc.doctype {
            Some(t) => t.decls.as_slice(),
            None => &[],
        };
        decls.iter().find(|d| match d {
            ADecl::Entity { name: n, .. } | ADecl::ExtEntity { name: n, .. } => n == name,
            _ => false,
        })
    }

    pub fn predefined(name: &str) -> Option<&'static str> {
        match name {
            "lt" => Some("<"),
            "gt" => Some(">"),
            "amp" => Some("&"),
            "apos" => Some("'"),
            "quot" => Some("\""),
            _ => None,
        }
    }

    /// Fully expanded character data denoted by an entity reference in *content* (only meaningful
    /// when the replacement text contains no markup).
    pub fn expand_content(&self, name: &str, stack: &mut Vec<String>) -> Result<String, ExpandErr> {
        match self.entity(name) {
            Some(ADecl::Entity { value, .. }) => {
                if stack.iter().any(|s| s == name) {
                    return Err(ExpandErr::Recursive(name.to_string()));
                }
                stack.push(name.to_string());
                let mut s = String::new();
                for p in value {
                    match p {
                        Part::Text(t) => s.push_str(t),
                        Part::CharRef(c) => s.push(*c),
                        Part::EntRef(n) => s.push_str(&self.expand_content(n, stack)?),
                    }
                }
                stack.pop();
                Ok(s)
            }
            Some(ADecl::ExtEntity { ndata: Some(_), .. }) => Err(ExpandErr::Unparsed(name.to_string())),
            Some(ADecl::ExtEntity { .. }) => Err(ExpandErr::External(name.to_string())),
            _ => match Self::predefined(name) {
                Some(v) => Ok(v.to_string()),
                None => Err(ExpandErr::Undeclared(name.to_string())),
            },
        }
    }

    /// §3.3.3 step by step on the literal's parts: a character reference appends the referenced
    /// character; an entity reference recursively applies the algorithm to the replacement text;
    /// a white space character (#x20, #xD, #xA, #x9) appends #x20 (the line-end normalisation of
    /// §2.11 turns a literal CR LF pair, and a lone CR, into one LF first).
    pub fn normalize_parts(&self, parts: &[Part], stack: &mut Vec<String>) -> Result<String, ExpandErr> {
        let mut s = String::new();
        for p in parts {
            match p {
                Part::Text(t) => s.push_str(&normalize_literal_text(t)),
                Part::CharRef(c) => s.push(*c),
                Part::EntRef(n) => s.push_str(&self.normalize_entity(n, stack)?),
            }
        }
        Ok(s)
    }

    fn normalize_entity(&self, name: &str, stack: &mut Vec<String>) -> Result<String, ExpandErr> {
        match self.entity(name) {
            Some(ADecl::Entity { value, .. }) => {
                if stack.iter().any(|s| s == name) {
                    return Err(ExpandErr::Recursive(name.to_string()));
                }
                stack.push(name.to_string());
                // replacement text (§4.5): character references are expanded when the entity
                // value is read, general references are left; then §3.3.3 is applied to that text,
                // where the formerly-referenced characters are now literal characters.
                let mut s = String::new();
                for p in value {
                    match p {
                        Part::Text(t) => s.push_str(&normalize_literal_text(t)),
                        Part::CharRef(c) => {
                            // the replacement text now contains the literal character c; if c is
                            // '&' or '<' the replacement text contains markup and is outside this
                            // model's attribute space; white space is normalised like literal text
                            s.push_str(&normalize_literal_text(&c.to_string()))
                        }
                        Part::EntRef(n) => s.push_str(&self.normalize_entity(n, stack)?),
                    }
                }
                stack.pop();
                Ok(s)
            }
            Some(ADecl::ExtEntity { ndata: Some(_), .. }) => Err(ExpandErr::Unparsed(name.to_string())),
            Some(ADecl::ExtEntity { .. }) => Err(ExpandErr::External(name.to_string())),
            _ => match Self::predefined(name) {
                Some(v) => Ok(v.to_string()),
                None => Err(ExpandErr::Undeclared(name.to_string())),
            },
        }
    }

    /// all attribute definitions for an element type, first definition of a name binds (§3.3)
    pub fn att_defs(&self, elem: &str) -> Vec<&'a AAttDef> {
        let decls: &'a [ADecl] = match &self.doc.doctype {
            Some(t) => t.decls.as_slice(),
            None => &[],
        };
        let mut v: Vec<&'a AAttDef> = vec![];
        for d in decls {
            if let ADecl::AttList { elem: e, defs } = d {
                if e == elem {
                    for def in defs {
                        if !v.iter().any(|x| x.name == def.name) {
                            v.push(def);
                        }
                    }
                }
            }
        }
        v
    }

    /// The attributes of an element as the infoset sees them: (name, normalized value, specified),
    /// namespace declarations excluded, defaults included.
    pub fn attributes(&self, e: &AElem) -> Result<Vec<(String, String, bool)>, ExpandErr> {
        let defs = self.att_defs(&e.name);
        let mut out = vec![];
        for a in &e.attrs {
            let mut v = self.normalize_parts(&a.value, &mut vec![])?;
            if let Some(d) = defs.iter().find(|d| d.name == a.name) {
                if d.ty != "CDATA" {
                    v = collapse_spaces(&v);
                }
            }
            out.push((a.name.clone(), v, true));
        }
        for d in defs {
            if let ADefault::Value { value, .. } = &d.default {
                if !e.attrs.iter().any(|a| a.name == d.name) {
                    let mut v = self.normalize_parts(value, &mut vec![])?;
                    if d.ty != "CDATA" {
                        v = collapse_spaces(&v);
                    }
                    out.push((d.name.clone(), v, false));
                }
            }
        }
        let _ = self.decls();
        Ok(out)
    }
}

/// literal text of an attribute value: end-of-line handling then white space -> space
pub fn normalize_literal_text(t: &str) -> String {
    let t = t.replace("\r\n", "\n").replace('\r', "\n");
    t.chars().map(|c| if c == '\n' || c == '\t' { ' ' } else { c }).collect()
}

pub fn collapse_spaces(v: &str) -> String {
    v.split(' ').filter(|x| !x.is_empty()).collect::<Vec<_>>().join(" ")
}

/// §2.11: the text of a document as passed to the application has CR LF and lone CR as LF
pub fn eol(t: &str) -> String {
    t.replace("\r\n", "\n").replace('\r', "\n")
}

pub fn is_ns_attr(name: &str) -> bool {
    name == "xmlns" || name.starts_with("xmlns:")
}

// ---------------------------------------------------------------------------------------------
// expected information set, in exactly the format of obs::info_dump

pub struct Expect {
    s: String,
    view: View,
    run: String,
    run_open: bool,
    run_ind: usize,
}

impl Expect {
    fn line(&mut self, ind: usize, t: &str) {
        self.flush();
        for _ in 0..ind {
            self.s.push(' ');
        }
        self.s.push_str(t);
        self.s.push('\n');
    }
    fn chars(&mut self, ind: usize, raw: &str, expanded: &str) {
        match self.view {
            View::Raw => self.line(ind, raw),
            View::Merged => {
                self.run_open = true;
                self.run_ind = ind;
                self.run.push_str(expanded);
            }
        }
    }
    fn flush(&mut self) {
        if self.run_open {
            self.run_open = false;
            let r = std::mem::take(&mut self.run);
            if !r.is_empty() {
                for _ in 0..self.run_ind {
                    self.s.push(' ');
                }
                self.s.push_str(&format!("text {}\n", q(&r)));
            }
        }
    }
}

pub fn split_name(n: &str) -> (Option<&str>, &str) {
    chars::split_qname(n)
}

/// `eol_normalized`: whether the expected character data has §2.11 applied (an XML processor
/// must; see C01's soundness note — the check compares with it applied).
pub fn expected_info_dump(d: &ADoc, view: View) -> Result<String, ExpandErr> {
    let dtd = Dtd::new(d);
    let mut x = Expect { s: String::new(), view, run: String::new(), run_open: false, run_ind: 0 };
    let (ver, enc, sa) = match &d.xmldecl {
        Some(v) => (Some(v.version.as_str()), v.encoding.clone().unwrap_or_default(), v.standalone),
        None => (None, String::new(), None),
    };
    x.line(
        0,
        &format!(
            "document version={} encoding={} standalone={}",
            opt(ver),
            q(&enc),
            match sa {
                Some(true) => "yes",
                Some(false) => "no",
                None => "-",
            }
        ),
    );
    for n in &d.pre {
        exp_node(n, 1, &dtd, &mut x)?;
    }
    if let Some(t) = &d.doctype {
        x.line(1, &format!("doctype {} public={} system={}", t.name, opt(t.public.as_deref()), opt(t.system.as_deref())));
        // the implementation lists entities, then notations, then PIs
        for dcl in &t.decls {
            match dcl {
                ADecl::Entity { name, value } => {
                    x.line(2, &format!("entity {} value={} public=- system=- ndata=-", name, q(&entity_value_text(value))));
                }
                ADecl::ExtEntity { name, public, system, ndata } => x.line(
                    2,
                    &format!(
                        "entity {} value=- public={} system={} ndata={}",
                        name,
                        opt(public.as_deref()),
                        q(system),
                        opt(ndata.as_deref())
                    ),
                ),
                _ => {}
            }
        }
        for dcl in &t.decls {
            if let ADecl::Notation { name, public, system } = dcl {
                x.line(2, &format!("notation {} public={} system={}", name, opt(public.as_deref()), opt(system.as_deref())));
            }
        }
        for dcl in &t.decls {
            if let ADecl::PI(tg, dt) = dcl {
                x.line(2, &format!("pi {} {}", tg, q(&eol(dt.as_deref().unwrap_or("")))));
            }
        }
    }
    for n in &d.mid {
        exp_node(n, 1, &dtd, &mut x)?;
    }
    exp_elem(&d.root, 1, &dtd, &mut x)?;
    for n in &d.post {
        exp_node(n, 1, &dtd, &mut x)?;
    }
    x.flush();
    // document-level notation / unparsed entity properties
    if let Some(t) = &d.doctype {
        let mut names = vec![];
        let mut dup = false;
        let mut v = vec![];
        for dcl in &t.decls {
            if let ADecl::Notation { name, public, system } = dcl {
                if names.contains(name) {
                    dup = true;
                }
                names.push(name.clone());
                v.push(format!("notation {} public={} system={}", name, opt(public.as_deref()), opt(system.as_deref())));
            }
        }
        if dup {
            x.line(1, "[notations] no-value");
        } else {
            v.sort();
            for l in v {
                x.line(1, &format!("[notations] {}", l));
            }
        }
        let mut v = vec![];
        let mut seen: Vec<&str> = vec![];
        for dcl in &t.decls {
            if let ADecl::ExtEntity { name, public, system, ndata } = dcl {
                if seen.contains(&name.as_str()) {
                    continue;
                }
                seen.push(name);
                if let Some(nd) = ndata {
                    v.push(format!("unparsed {} public={} system={} ndata={}", name, opt(public.as_deref()), q(system), nd));
                }
            } else if let ADecl::Entity { name, .. } = dcl {
                if !seen.contains(&name.as_str()) {
                    seen.push(name);
                }
            }
        }
        v.sort();
        for l in v {
            x.line(1, &format!("[unparsed-entities] {}", l));
        }
    }
    x.flush();
    Ok(x.s)
}

/// entity value as a semantic part list, spelled like the implementation's Display of its parts
/// with character references in decimal
pub fn entity_value_text(v: &[Part]) -> String {
    let mut s = String::new();
    for p in v {
        match p {
            Part::Text(t) => s.push_str(t),
            Part::CharRef(c) => s.push_str(&format!("&#{};", *c as u32)),
            Part::EntRef(n) => s.push_str(&format!("&{};", n)),
        }
    }
    s
}

fn exp_node(n: &ANode, ind: usize, dtd: &Dtd, x: &mut Expect) -> Result<(), ExpandErr> {
    match n {
        ANode::Elem(e) => exp_elem(e, ind, dtd, x)?,
        ANode::Text(t) => {
            let t = eol(t);
            x.chars(ind, &format!("text {}", q(&t)), &t)
        }
        ANode::CData(t) => {
            let t = eol(t);
            x.chars(ind, &format!("cdata {}", q(&t)), &t)
        }
        ANode::CharRef(c) => x.chars(ind, &format!("charref {}", q(&c.to_string())), &c.to_string()),
        ANode::EntRef(name) => {
            let v = dtd.expand_content(name, &mut vec![])?;
            x.chars(ind, &format!("entityref {} = {}", name, q(&v)), &v)
        }
        ANode::Comment(t) => x.line(ind, &format!("comment {}", q(&eol(t)))),
        ANode::PI(t, d) => x.line(ind, &format!("pi {} {}", t, q(&eol(d.as_deref().unwrap_or(""))))),
    }
    Ok(())
}

fn exp_elem(e: &AElem, ind: usize, dtd: &Dtd, x: &mut Expect) -> Result<(), ExpandErr> {
    x.line(ind, &format!("element {}", e.name));
    // [namespace attributes]: the declarations written in the start tag and the ones defaulted from the DTD
    let mut ns = vec![];
    for (name, v, _) in dtd.attributes(e)? {
        if is_ns_attr(&name) {
            ns.push(format!("nsdecl {} = {}", name, q(&v)));
        }
    }
    ns.sort();
    for l in ns {
        x.line(ind + 1, &l);
    }
    let mut at = vec![];
    for (name, v, spec) in dtd.attributes(e)? {
        if is_ns_attr(&name) {
            continue;
        }
        at.push(format!("attr {} = {} {}", name, q(&v), if spec { "specified" } else { "defaulted" }));
    }
    at.sort();
    for l in at {
        x.line(ind + 1, &l);
    }
    for c in &e.children {
        exp_node(c, ind + 1, dtd, x)?;
    }
    x.flush();
    Ok(())
}
