//! Reference recogniser for XML 1.0 (Fifth Edition) well-formedness — non-validating, internal
//! subset only.  Text -> abstract document, or the first violated production / constraint.
//! Written by hand as a character-level recursive descent; shares no code with the repository.

use super::adoc::*;
use super::chars::*;

#[derive(Debug, Clone, PartialEq)]
pub struct WfErr {
    /// stable code of the violated production or well-formedness constraint
    pub site: &'static str,
    pub pos: usize,
    pub msg: String,
    /// the violation is inside the replacement text of an internal entity referenced in content
    pub in_entity: bool,
}

#[derive(Debug, Clone, PartialEq)]
pub enum Verdict {
    WellFormed(Box<ADoc>),
    IllFormed(WfErr),
    /// uses a construct the recogniser does not decide (parameter entities)
    Undecided(&'static str),
}

struct P<'a> {
    c: Vec<char>,
    i: usize,
    /// entity declarations seen so far in document order: name -> Some(parts) | None (external/unparsed)
    ents: Vec<(String, EntKind)>,
    saw_pe: bool,
    has_external_subset: bool,
    standalone: Option<bool>,
    depth: usize,
    _src: &'a str,
}

#[derive(Clone, Debug)]
enum EntKind {
    Internal(Vec<Part>),
    External,
    Unparsed,
}

type R<T> = Result<T, WfErr>;

const MAX_DEPTH: usize = 2000;

impl<'a> P<'a> {
    fn err<T>(&self, site: &'static str, msg: &str) -> R<T> {
        Err(WfErr { site, pos: self.i, msg: msg.to_string(), in_entity: false })
    }
    fn peek(&self) -> Option<char> {
        self.c.get(self.i).copied()
    }
    fn looking_at(&self, s: &str) -> bool {
        let mut k = self.i;
        for ch in s.chars() {
            if self.c.get(k) != Some(&ch) {
                return false;
            }
            k += 1;
        }
        true
    }
    fn eat(&mut self, s: &str) -> bool {
        if self.looking_at(s) {
            self.i += s.chars().count();
            true
        } else {
            false
        }
    }
    fn expect(&mut self, s: &str, site: &'static str) -> R<()> {
        if self.eat(s) {
            Ok(())
        } else {
            self.err(site, &format!("expected {:?}", s))
        }
    }
    fn ws0(&mut self) -> bool {
        let s = self.i;
        while matches!(self.peek(), Some(c) if is_space(c)) {
            self.i += 1;
        }
        self.i > s
    }
    fn ws1(&mut self, site: &'static str) -> R<()> {
        if self.ws0() {
            Ok(())
        } else {
            self.err(site, "white space required")
        }
    }
    fn name(&mut self, site: &'static str) -> R<String> {
        let s = self.i;
        match self.peek() {
            Some(c) if is_name_start(c) => self.i += 1,
            _ => return self.err(site, "Name expected"),
        }
        while matches!(self.peek(), Some(c) if is_name_char(c)) {
            self.i += 1;
        }
        Ok(self.c[s..self.i].iter().collect())
    }
    fn nmtoken(&mut self, site: &'static str) -> R<String> {
        let s = self.i;
        while matches!(self.peek(), Some(c) if is_name_char(c)) {
            self.i += 1;
        }
        if self.i == s {
            return self.err(site, "Nmtoken expected");
        }
        Ok(self.c[s..self.i].iter().collect())
    }
    fn eq(&mut self, site: &'static str) -> R<()> {
        self.ws0();
        self.expect("=", site)?;
        self.ws0();
        Ok(())
    }

    // ---- references

    /// after '&': returns Part
    fn reference(&mut self, site: &'static str) -> R<Part> {
        self.expect("&", site)?;
        if self.eat("#") {
            let hex = self.eat("x");
            let s = self.i;
            while matches!(self.peek(), Some(c) if (hex && c.is_ascii_hexdigit()) || (!hex && c.is_ascii_digit())) {
                self.i += 1;
            }
            if self.i == s {
                return self.err("P66.CharRef", "digits expected");
            }
            let digits: String = self.c[s..self.i].iter().collect();
            self.expect(";", "P66.CharRef")?;
            let v = u32::from_str_radix(&digits, if hex { 16 } else { 10 }).ok();
            match v.and_then(char::from_u32) {
                Some(ch) if is_char(ch) => Ok(Part::CharRef(ch)),
                _ => self.err("WFC.LegalCharacter", "character reference to a non-Char"),
            }
        } else {
            let n = self.name("P68.EntityRef")?;
            self.expect(";", "P68.EntityRef")?;
            Ok(Part::EntRef(n))
        }
    }

    fn lookup(&self, name: &str) -> Option<EntKind> {
        self.ents.iter().find(|e| e.0 == name).map(|e| e.1.clone())
    }

    fn predefined(name: &str) -> Option<&'static str> {
        Dtd::predefined(name)
    }

    /// Entity Declared applies as a well-formedness constraint?
    fn must_be_declared(&self) -> bool {
        !(self.has_external_subset || self.saw_pe) || self.standalone == Some(true)
    }

    /// check an entity reference occurring in an attribute value (directly or through entities)
    fn check_attr_entity(&self, name: &str, stack: &mut Vec<String>) -> R<()> {
        match self.lookup(name) {
            Some(EntKind::Internal(parts)) => {
                if stack.iter().any(|s| s == name) {
                    return self.err("WFC.NoRecursion", name);
                }
                stack.push(name.to_string());
                // replacement text: char refs already characters; a '<' from a char ref is a '<'
                for p in &parts {
                    match p {
                        Part::Text(t) => {
                            if t.contains('<') {
                                return self.err("WFC.NoLTInAttr", name);
                            }
                        }
                        Part::CharRef(c) => {
                            if *c == '<' {
                                return self.err("WFC.NoLTInAttr", name);
                            }
                            if *c == '&' {
                                // replacement text contains a bare '&': it must start a reference
                                // when the replacement text is processed; undecidable here without
                                // re-scanning — handled by rescan below
                            }
                        }
                        Part::EntRef(n) => self.check_attr_entity(n, stack)?,
                    }
                }
                // re-scan the replacement text for references formed by char-ref'd ampersands
                let repl = replacement_text(&parts);
                if repl.contains('&') && parts.iter().any(|p| matches!(p, Part::CharRef('&'))) {
                    self.rescan_attr_replacement(&repl, stack)?;
                }
                stack.pop();
                Ok(())
            }
            Some(EntKind::External) => self.err("WFC.NoExternalEntityRef", name),
            Some(EntKind::Unparsed) => self.err("WFC.NoExternalEntityRef", name),
            None => {
                if Self::predefined(name).is_some() {
                    Ok(())
                } else if self.must_be_declared() {
                    self.err("WFC.EntityDeclared", name)
                } else {
                    Ok(())
                }
            }
        }
    }

    fn rescan_attr_replacement(&self, repl: &str, stack: &mut Vec<String>) -> R<()> {
        let mut sub = P {
            c: repl.chars().collect(),
            i: 0,
            ents: self.ents.clone(),
            saw_pe: self.saw_pe,
            has_external_subset: self.has_external_subset,
            standalone: self.standalone,
            depth: self.depth + 1,
            _src: "",
        };
        while let Some(c) = sub.peek() {
            if c == '<' {
                return self.err("WFC.NoLTInAttr", "replacement text");
            }
            if c == '&' {
                match sub.reference("P10.AttValue")? {
                    Part::EntRef(n) => self.check_attr_entity(&n, stack)?,
                    _ => {}
                }
            } else {
                sub.i += 1;
            }
        }
        Ok(())
    }

    /// AttValue [10]; checks the attribute-value WFCs
    fn att_value(&mut self) -> R<Vec<Part>> {
        let qc = match self.peek() {
            Some(c @ ('"' | '\'')) => c,
            _ => return self.err("P10.AttValue", "quote expected"),
        };
        self.i += 1;
        let mut parts = vec![];
        let mut cur = String::new();
        loop {
            match self.peek() {
                None => return self.err("P10.AttValue", "unterminated attribute value"),
                Some(c) if c == qc => {
                    self.i += 1;
                    break;
                }
                Some('<') => return self.err("WFC.NoLTInAttr", "'<' in attribute value"),
                Some('&') => {
                    if !cur.is_empty() {
                        parts.push(Part::Text(std::mem::take(&mut cur)));
                    }
                    let p = self.reference("P10.AttValue")?;
                    if let Part::EntRef(n) = &p {
                        self.check_attr_entity(n, &mut vec![])?;
                    }
                    parts.push(p);
                }
                Some(c) => {
                    if !is_char(c) {
                        return self.err("P2.Char", "illegal character in attribute value");
                    }
                    cur.push(c);
                    self.i += 1;
                }
            }
        }
        if !cur.is_empty() {
            parts.push(Part::Text(cur));
        }
        Ok(parts)
    }

    fn quoted(&mut self, site: &'static str, ok: impl Fn(char) -> bool) -> R<String> {
        let qc = match self.peek() {
            Some(c @ ('"' | '\'')) => c,
            _ => return self.err(site, "quote expected"),
        };
        self.i += 1;
        let s = self.i;
        loop {
            match self.peek() {
                None => return self.err(site, "unterminated literal"),
                Some(c) if c == qc => break,
                Some(c) if ok(c) => self.i += 1,
                Some(_) => return self.err(site, "illegal character in literal"),
            }
        }
        let v: String = self.c[s..self.i].iter().collect();
        self.i += 1;
        Ok(v)
    }

    // ---- misc

    fn comment(&mut self) -> R<String> {
        self.expect("<!--", "P15.Comment")?;
        let s = self.i;
        loop {
            if self.looking_at("--") {
                if self.looking_at("-->") {
                    let v: String = self.c[s..self.i].iter().collect();
                    self.i += 3;
                    return Ok(v);
                }
                return self.err("P15.Comment", "'--' inside comment");
            }
            match self.peek() {
                None => return self.err("P15.Comment", "unterminated comment"),
                Some(c) if is_char(c) => self.i += 1,
                Some(_) => return self.err("P2.Char", "illegal character in comment"),
            }
        }
    }

    fn pi(&mut self) -> R<(String, Option<String>)> {
        self.expect("<?", "P16.PI")?;
        let t = self.name("P17.PITarget")?;
        if t.eq_ignore_ascii_case("xml") {
            return self.err("P17.PITarget", "reserved target");
        }
        if self.eat("?>") {
            return Ok((t, None));
        }
        self.ws1("P16.PI")?;
        let s = self.i;
        loop {
            if self.looking_at("?>") {
                let v: String = self.c[s..self.i].iter().collect();
                self.i += 2;
                return Ok((t, Some(v)));
            }
            match self.peek() {
                None => return self.err("P16.PI", "unterminated PI"),
                Some(c) if is_char(c) => self.i += 1,
                Some(_) => return self.err("P2.Char", "illegal character in PI"),
            }
        }
    }

    fn cdsect(&mut self) -> R<String> {
        self.expect("<![CDATA[", "P18.CDSect")?;
        let s = self.i;
        loop {
            if self.looking_at("]]>") {
                let v: String = self.c[s..self.i].iter().collect();
                self.i += 3;
                return Ok(v);
            }
            match self.peek() {
                None => return self.err("P18.CDSect", "unterminated CDATA section"),
                Some(c) if is_char(c) => self.i += 1,
                Some(_) => return self.err("P2.Char", "illegal character in CDATA section"),
            }
        }
    }

    /// Misc* ; returns comment/PI nodes
    fn miscs(&mut self) -> R<Vec<ANode>> {
        let mut v = vec![];
        loop {
            self.ws0();
            if self.looking_at("<!--") {
                v.push(ANode::Comment(self.comment()?));
            } else if self.looking_at("<?") {
                let (t, d) = self.pi()?;
                v.push(ANode::PI(t, d));
            } else {
                return Ok(v);
            }
        }
    }

    // ---- prolog

    fn xmldecl(&mut self) -> R<Option<XmlDecl>> {
        // '<?xml' followed by white space is an XML declaration; '<?xml-foo' is a PI
        if !(self.looking_at("<?xml") && matches!(self.c.get(self.i + 5), Some(c) if is_space(*c))) {
            return Ok(None);
        }
        self.i += 5;
        self.ws1("P23.XMLDecl")?;
        self.expect("version", "P24.VersionInfo")?;
        self.eq("P24.VersionInfo")?;
        let ver = self.quoted("P24.VersionInfo", |c| c.is_ascii_digit() || c == '.')?;
        let okv = ver.starts_with("1.") && ver.len() > 2 && ver[2..].chars().all(|c| c.is_ascii_digit());
        if !okv {
            return self.err("P26.VersionNum", "VersionNum is '1.' [0-9]+");
        }
        let mut d = XmlDecl { version: ver, encoding: None, standalone: None };
        let mut had_ws = self.ws0();
        if self.looking_at("encoding") {
            if !had_ws {
                return self.err("P80.EncodingDecl", "white space required");
            }
            self.i += 8;
            self.eq("P80.EncodingDecl")?;
            let e = self.quoted("P80.EncodingDecl", |c| is_enc_name_char(c))?;
            if !is_enc_name(&e) {
                return self.err("P81.EncName", "EncName");
            }
            d.encoding = Some(e);
            had_ws = self.ws0();
        }
        if self.looking_at("standalone") {
            if !had_ws {
                return self.err("P32.SDDecl", "white space required");
            }
            self.i += 10;
            self.eq("P32.SDDecl")?;
            let s = self.quoted("P32.SDDecl", |c| c.is_ascii_alphabetic())?;
            d.standalone = match s.as_str() {
                "yes" => Some(true),
                "no" => Some(false),
                _ => return self.err("P32.SDDecl", "yes or no"),
            };
            self.ws0();
        }
        self.expect("?>", "P23.XMLDecl")?;
        self.standalone = d.standalone;
        Ok(Some(d))
    }

    fn external_id(&mut self, allow_public_only: bool) -> R<(Option<String>, Option<String>)> {
        if self.eat("SYSTEM") {
            self.ws1("P75.ExternalID")?;
            let s = self.quoted("P11.SystemLiteral", is_char)?;
            Ok((None, Some(s)))
        } else if self.eat("PUBLIC") {
            self.ws1("P75.ExternalID")?;
            let p = self.quoted("P12.PubidLiteral", is_pubid_char)?;
            let save = self.i;
            let ws = self.ws0();
            if matches!(self.peek(), Some('"' | '\'')) {
                if !ws {
                    return self.err("P75.ExternalID", "white space required");
                }
                let s = self.quoted("P11.SystemLiteral", is_char)?;
                Ok((Some(p), Some(s)))
            } else if allow_public_only {
                self.i = save;
                Ok((Some(p), None))
            } else {
                self.err("P75.ExternalID", "system literal required")
            }
        } else {
            self.err("P75.ExternalID", "SYSTEM or PUBLIC")
        }
    }

    fn doctype(&mut self) -> R<ADoctype> {
        self.expect("<!DOCTYPE", "P28.doctypedecl")?;
        self.ws1("P28.doctypedecl")?;
        let name = self.name("P28.doctypedecl")?;
        let mut t = ADoctype { name, ..Default::default() };
        let ws = self.ws0();
        if self.looking_at("SYSTEM") || self.looking_at("PUBLIC") {
            if !ws {
                return self.err("P28.doctypedecl", "white space required");
            }
            let (p, s) = self.external_id(false)?;
            t.public = p;
            t.system = s;
            self.has_external_subset = true;
            self.ws0();
        }
        if self.eat("[") {
            t.subset = true;
            loop {
                self.ws0();
                if self.eat("]") {
                    break;
                }
                if self.looking_at("%") {
                    self.saw_pe = true;
                    self.i += 1;
                    self.name("P69.PEReference")?;
                    self.expect(";", "P69.PEReference")?;
                    continue;
                }
                if self.looking_at("<!--") {
                    t.decls.push(ADecl::Comment(self.comment()?));
                } else if self.looking_at("<?") {
                    let (tg, d) = self.pi()?;
                    t.decls.push(ADecl::PI(tg, d));
                } else if self.looking_at("<!ELEMENT") {
                    t.decls.push(self.element_decl()?);
                } else if self.looking_at("<!ATTLIST") {
                    t.decls.push(self.attlist_decl()?);
                } else if self.looking_at("<!ENTITY") {
                    if let Some(d) = self.entity_decl()? {
                        t.decls.push(d);
                    }
                } else if self.looking_at("<!NOTATION") {
                    t.decls.push(self.notation_decl()?);
                } else if self.peek().is_none() {
                    return self.err("P28.doctypedecl", "unterminated internal subset");
                } else {
                    return self.err("P29.markupdecl", "markup declaration expected");
                }
            }
            self.ws0();
        }
        self.expect(">", "P28.doctypedecl")?;
        Ok(t)
    }

    fn element_decl(&mut self) -> R<ADecl> {
        self.expect("<!ELEMENT", "P45.elementdecl")?;
        self.ws1("P45.elementdecl")?;
        let name = self.name("P45.elementdecl")?;
        self.ws1("P45.elementdecl")?;
        let s = self.i;
        if self.eat("EMPTY") || self.eat("ANY") {
        } else if self.looking_at("(") {
            // Mixed or children
            let save = self.i;
            self.i += 1;
            self.ws0();
            if self.eat("#PCDATA") {
                let mut names = 0;
                loop {
                    self.ws0();
                    if self.eat("|") {
                        self.ws0();
                        self.name("P51.Mixed")?;
                        names += 1;
                    } else {
                        break;
                    }
                }
                self.expect(")", "P51.Mixed")?;
                if names > 0 {
                    self.expect("*", "P51.Mixed")?;
                } else {
                    self.eat("*");
                }
            } else {
                self.i = save;
                self.depth = 0;
                self.cp_group()?;
                let _ = self.eat("?") || self.eat("*") || self.eat("+");
            }
        } else {
            return self.err("P46.contentspec", "content specification expected");
        }
        let spec: String = self.c[s..self.i].iter().collect();
        self.ws0();
        self.expect(">", "P45.elementdecl")?;
        Ok(ADecl::Element { name, spec })
    }

    /// choice | seq (iterative-friendly: recursion depth bounded)
    fn cp_group(&mut self) -> R<()> {
        self.depth += 1;
        if self.depth > MAX_DEPTH {
            return self.err("LIMIT.depth", "nesting deeper than the recogniser's limit");
        }
        self.expect("(", "P47.children")?;
        self.ws0();
        self.cp()?;
        self.ws0();
        let mut sep: Option<char> = None;
        loop {
            match self.peek() {
                Some(')') => {
                    self.i += 1;
                    break;
                }
                Some(c @ ('|' | ',')) => {
                    if let Some(s) = sep {
                        if s != c {
                            return self.err("P49.choice", "mixed separators");
                        }
                    }
                    sep = Some(c);
                    self.i += 1;
                    self.ws0();
                    self.cp()?;
                    self.ws0();
                }
                _ => return self.err("P47.children", "')' , or | expected"),
            }
        }
        self.depth -= 1;
        Ok(())
    }

    fn cp(&mut self) -> R<()> {
        if self.looking_at("(") {
            self.cp_group()?;
        } else {
            self.name("P48.cp")?;
        }
        let _ = self.eat("?") || self.eat("*") || self.eat("+");
        Ok(())
    }

    fn attlist_decl(&mut self) -> R<ADecl> {
        self.expect("<!ATTLIST", "P52.AttlistDecl")?;
        self.ws1("P52.AttlistDecl")?;
        let elem = self.name("P52.AttlistDecl")?;
        let mut defs = vec![];
        loop {
            let ws = self.ws0();
            if self.eat(">") {
                break;
            }
            if !ws {
                return self.err("P53.AttDef", "white space required");
            }
            let name = self.name("P53.AttDef")?;
            self.ws1("P53.AttDef")?;
            let s = self.i;
            if self.eat("NOTATION") {
                self.ws1("P58.NotationType")?;
                self.expect("(", "P58.NotationType")?;
                loop {
                    self.ws0();
                    self.name("P58.NotationType")?;
                    self.ws0();
                    if self.eat("|") {
                        continue;
                    }
                    self.expect(")", "P58.NotationType")?;
                    break;
                }
            } else if self.eat("(") {
                loop {
                    self.ws0();
                    self.nmtoken("P59.Enumeration")?;
                    self.ws0();
                    if self.eat("|") {
                        continue;
                    }
                    self.expect(")", "P59.Enumeration")?;
                    break;
                }
            } else {
                let kw = ["CDATA", "IDREFS", "IDREF", "ID", "ENTITIES", "ENTITY", "NMTOKENS", "NMTOKEN"];
                let mut ok = false;
                for k in kw {
                    if self.looking_at(k) && matches!(self.c.get(self.i + k.len()), Some(c) if is_space(*c)) {
                        self.i += k.len();
                        ok = true;
                        break;
                    }
                }
                if !ok {
                    return self.err("P54.AttType", "attribute type expected");
                }
            }
            let ty: String = self.c[s..self.i].iter().collect();
            self.ws1("P53.AttDef")?;
            let default = if self.eat("#REQUIRED") {
                ADefault::Required
            } else if self.eat("#IMPLIED") {
                ADefault::Implied
            } else {
                let fixed = if self.eat("#FIXED") {
                    self.ws1("P60.DefaultDecl")?;
                    true
                } else {
                    false
                };
                ADefault::Value { fixed, value: self.att_value()? }
            };
            defs.push(AAttDef { name, ty, default });
        }
        Ok(ADecl::AttList { elem, defs })
    }

    fn entity_decl(&mut self) -> R<Option<ADecl>> {
        self.expect("<!ENTITY", "P70.EntityDecl")?;
        self.ws1("P70.EntityDecl")?;
        if self.looking_at("%") && matches!(self.c.get(self.i + 1), Some(c) if is_space(*c)) {
            // parameter entity declaration: syntax-checked, then the document is outside what this
            // recogniser decides
            self.saw_pe = true;
            self.i += 1;
            self.ws1("P72.PEDecl")?;
            self.name("P72.PEDecl")?;
            self.ws1("P72.PEDecl")?;
            if matches!(self.peek(), Some('"' | '\'')) {
                self.entity_value()?;
            } else {
                self.external_id(false)?;
            }
            self.ws0();
            self.expect(">", "P72.PEDecl")?;
            return Ok(None);
        }
        let name = self.name("P71.GEDecl")?;
        self.ws1("P71.GEDecl")?;
        let d = if matches!(self.peek(), Some('"' | '\'')) {
            let value = self.entity_value()?;
            if self.lookup(&name).is_none() {
                self.ents.push((name.clone(), EntKind::Internal(value.clone())));
            }
            ADecl::Entity { name, value }
        } else {
            let (p, s) = self.external_id(false)?;
            let save = self.i;
            let ws = self.ws0();
            let ndata = if self.looking_at("NDATA") {
                if !ws {
                    return self.err("P76.NDataDecl", "white space required");
                }
                self.i += 5;
                self.ws1("P76.NDataDecl")?;
                Some(self.name("P76.NDataDecl")?)
            } else {
                self.i = save;
                None
            };
            if self.lookup(&name).is_none() {
                self.ents
                    .push((name.clone(), if ndata.is_some() { EntKind::Unparsed } else { EntKind::External }));
            }
            ADecl::ExtEntity { name, public: p, system: s.unwrap_or_default(), ndata }
        };
        self.ws0();
        self.expect(">", "P71.GEDecl")?;
        Ok(Some(d))
    }

    fn entity_value(&mut self) -> R<Vec<Part>> {
        let qc = match self.peek() {
            Some(c @ ('"' | '\'')) => c,
            _ => return self.err("P9.EntityValue", "quote expected"),
        };
        self.i += 1;
        let mut parts = vec![];
        let mut cur = String::new();
        loop {
            match self.peek() {
                None => return self.err("P9.EntityValue", "unterminated entity value"),
                Some(c) if c == qc => {
                    self.i += 1;
                    break;
                }
                Some('%') => {
                    // PEReference syntax inside an entity value in the internal subset
                    let save = self.i;
                    self.i += 1;
                    if self.name("P69.PEReference").is_ok() && self.eat(";") {
                        return self.err("WFC.PEsInInternalSubset", "PE reference inside markup declaration");
                    }
                    self.i = save;
                    return self.err("P9.EntityValue", "'%' in entity value");
                }
                Some('&') => {
                    if !cur.is_empty() {
                        parts.push(Part::Text(std::mem::take(&mut cur)));
                    }
                    parts.push(self.reference("P9.EntityValue")?);
                }
                Some(c) => {
                    if !is_char(c) {
                        return self.err("P2.Char", "illegal character in entity value");
                    }
                    cur.push(c);
                    self.i += 1;
                }
            }
        }
        if !cur.is_empty() {
            parts.push(Part::Text(cur));
        }
        Ok(parts)
    }

    fn notation_decl(&mut self) -> R<ADecl> {
        self.expect("<!NOTATION", "P82.NotationDecl")?;
        self.ws1("P82.NotationDecl")?;
        let name = self.name("P82.NotationDecl")?;
        self.ws1("P82.NotationDecl")?;
        let (p, s) = self.external_id(true)?;
        self.ws0();
        self.expect(">", "P82.NotationDecl")?;
        Ok(ADecl::Notation { name, public: p, system: s })
    }

    // ---- element / content

    fn element(&mut self) -> R<AElem> {
        self.depth += 1;
        if self.depth > MAX_DEPTH {
            return self.err("LIMIT.depth", "nesting deeper than the recogniser's limit");
        }
        self.expect("<", "P40.STag")?;
        let name = self.name("P40.STag")?;
        let mut attrs: Vec<AAttr> = vec![];
        loop {
            let ws = self.ws0();
            if self.eat("/>") {
                self.depth -= 1;
                return Ok(AElem { name, attrs, children: vec![] });
            }
            if self.eat(">") {
                break;
            }
            if !ws {
                return self.err("P40.STag", "white space required before attribute");
            }
            let an = self.name("P41.Attribute")?;
            self.eq("P41.Attribute")?;
            let v = self.att_value()?;
            if attrs.iter().any(|a| a.name == an) {
                return self.err("WFC.UniqueAttSpec", &an);
            }
            attrs.push(AAttr { name: an, value: v });
        }
        let children = self.content(&mut vec![])?;
        self.expect("</", "P42.ETag")?;
        let en = self.name("P42.ETag")?;
        if en != name {
            return self.err("WFC.ElementTypeMatch", &format!("{} vs {}", name, en));
        }
        self.ws0();
        self.expect(">", "P42.ETag")?;
        self.depth -= 1;
        Ok(AElem { name, attrs, children })
    }

    /// content [43]; stops at "</" or end of input
    fn content(&mut self, ent_stack: &mut Vec<String>) -> R<Vec<ANode>> {
        let mut v = vec![];
        let mut cur = String::new();
        macro_rules! flush {
            () => {
                if !cur.is_empty() {
                    v.push(ANode::Text(std::mem::take(&mut cur)));
                }
            };
        }
        loop {
            if self.looking_at("</") || self.peek().is_none() {
                flush!();
                return Ok(v);
            }
            if self.looking_at("<!--") {
                flush!();
                v.push(ANode::Comment(self.comment()?));
            } else if self.looking_at("<![CDATA[") {
                flush!();
                v.push(ANode::CData(self.cdsect()?));
            } else if self.looking_at("<?") {
                flush!();
                let (t, d) = self.pi()?;
                v.push(ANode::PI(t, d));
            } else if self.looking_at("<") {
                flush!();
                v.push(ANode::Elem(self.element()?));
            } else if self.looking_at("&") {
                flush!();
                match self.reference("P67.Reference")? {
                    Part::CharRef(c) => v.push(ANode::CharRef(c)),
                    Part::EntRef(n) => {
                        self.check_content_entity(&n, ent_stack)?;
                        v.push(ANode::EntRef(n));
                    }
                    Part::Text(_) => unreachable!(),
                }
            } else {
                if self.looking_at("]]>") {
                    return self.err("P14.CharData", "']]>' in character data");
                }
                let c = self.peek().unwrap();
                if !is_char(c) {
                    return self.err("P2.Char", "illegal character in content");
                }
                cur.push(c);
                self.i += 1;
            }
        }
    }

    fn check_content_entity(&self, name: &str, stack: &mut Vec<String>) -> R<()> {
        match self.lookup(name) {
            Some(EntKind::Internal(parts)) => {
                if stack.iter().any(|s| s == name) {
                    return self.err("WFC.NoRecursion", name);
                }
                if stack.len() > 200 {
                    return self.err("LIMIT.depth", "entity nesting");
                }
                stack.push(name.to_string());
                let repl = replacement_text(&parts);
                // the replacement text must match `content`
                let mut sub = P {
                    c: repl.chars().collect(),
                    i: 0,
                    ents: self.ents.clone(),
                    saw_pe: self.saw_pe,
                    has_external_subset: self.has_external_subset,
                    standalone: self.standalone,
                    depth: self.depth + 1,
                    _src: "",
                };
                sub.content(stack).map_err(|mut e| {
                    e.pos = self.i;
                    // constraints on the references inside the text (recursion, declaredness, unparsed entities) are
                    // checked by the implementation when the entity is declared; everything that can only be seen by
                    // parsing the replacement text as `content` (tag balance, duplicate attributes, ...) is the recorded
                    // deviation "replacement text is never parsed"
                    if !matches!(e.site, "WFC.NoRecursion" | "WFC.EntityDeclared" | "WFC.ParsedEntity") {
                        e.in_entity = true;
                    }
                    e
                })?;
                if sub.peek().is_some() {
                    return Err(WfErr {
                        site: "WFC.ParsedEntityContent",
                        pos: self.i,
                        msg: "replacement text does not match content".into(),
                        in_entity: true,
                    });
                }
                stack.pop();
                Ok(())
            }
            Some(EntKind::External) => Ok(()), // a non-validating processor need not include it
            Some(EntKind::Unparsed) => self.err("WFC.ParsedEntity", name),
            None => {
                if Self::predefined(name).is_some() {
                    Ok(())
                } else if self.must_be_declared() {
                    self.err("WFC.EntityDeclared", name)
                } else {
                    Ok(())
                }
            }
        }
    }

    fn document(&mut self) -> R<ADoc> {
        let mut d = ADoc::default();
        d.xmldecl = self.xmldecl()?;
        d.pre = self.miscs()?;
        if self.looking_at("<!DOCTYPE") {
            d.doctype = Some(self.doctype()?);
            d.mid = self.miscs()?;
        }
        if !self.looking_at("<") || self.looking_at("<!") || self.looking_at("<?") {
            return self.err("P1.document.root", "root element expected");
        }
        self.depth = 0;
        d.root = self.element()?;
        d.post = self.miscs()?;
        if self.peek().is_some() {
            return self.err("P1.document.trailing", "content after the root element");
        }
        Ok(d)
    }
}

/// §4.5: replacement text of an internal entity (character references expanded, general entity
/// references bypassed)
pub fn replacement_text(parts: &[Part]) -> String {
    let mut s = String::new();
    for p in parts {
        match p {
            Part::Text(t) => s.push_str(t),
            Part::CharRef(c) => s.push(*c),
            Part::EntRef(n) => {
                s.push('&');
                s.push_str(n);
                s.push(';');
            }
        }
    }
    s
}

pub fn recognise(text: &str) -> Verdict {
    let mut p = P {
        c: text.chars().collect(),
        i: 0,
        ents: vec![],
        saw_pe: false,
        has_external_subset: false,
        standalone: None,
        depth: 0,
        _src: text,
    };
    let r = p.document();
    if p.saw_pe {
        return Verdict::Undecided("parameter entities");
    }
    match r {
        Ok(d) => Verdict::WellFormed(Box::new(d)),
        Err(e) if e.site.starts_with("LIMIT.") => Verdict::Undecided("nesting beyond the recogniser's limit"),
        Err(e) => Verdict::IllFormed(e),
    }
}

/// Does the document stay inside the profile the implementation claims to support and C01
/// quantifies over?  (no external subset, no external parsed entity *references*, entity
/// replacement texts free of markup)
pub fn in_profile(d: &ADoc) -> bool {
    if let Some(t) = &d.doctype {
        if t.system.is_some() || t.public.is_some() {
            return false;
        }
        for dcl in &t.decls {
            if let ADecl::Entity { value, .. } = dcl {
                let r = replacement_text(value);
                if r.contains('<') || value.iter().any(|p| matches!(p, Part::CharRef('&') | Part::CharRef('<'))) {
                    return false;
                }
            }
        }
    }
    true
}
