//! Character classes of XML 1.0 (Fifth Edition), transcribed from the Recommendation
//! (productions [2], [4], [4a], [13], [81]) and Namespaces in XML 1.0 ([4] NCName, [7] QName).
//! Independent of nom/src/xmlchar.rs: written as range tables, not as `matches!` arms.

pub const CHAR: &[(u32, u32)] = &[
    (0x9, 0x9),
    (0xA, 0xA),
    (0xD, 0xD),
    (0x20, 0xD7FF),
    (0xE000, 0xFFFD),
    (0x10000, 0x10FFFF),
];

pub const NAME_START: &[(u32, u32)] = &[
    (0x3A, 0x3A), // ':'
    (0x41, 0x5A), // A-Z
    (0x5F, 0x5F), // '_'
    (0x61, 0x7A), // a-z
    (0xC0, 0xD6),
    (0xD8, 0xF6),
    (0xF8, 0x2FF),
    (0x370, 0x37D),
    (0x37F, 0x1FFF),
    (0x200C, 0x200D),
    (0x2070, 0x218F),
    (0x2C00, 0x2FEF),
    (0x3001, 0xD7FF),
    (0xF900, 0xFDCF),
    (0xFDF0, 0xFFFD),
    (0x10000, 0xEFFFF),
];

pub const NAME_EXTRA: &[(u32, u32)] = &[
    (0x2D, 0x2D), // '-'
    (0x2E, 0x2E), // '.'
    (0x30, 0x39), // 0-9
    (0xB7, 0xB7),
    (0x300, 0x36F),
    (0x203F, 0x2040),
];

fn in_table(t: &[(u32, u32)], c: u32) -> bool {
    t.iter().any(|(a, b)| *a <= c && c <= *b)
}

pub fn is_char(c: char) -> bool {
    in_table(CHAR, c as u32)
}

pub fn is_name_start(c: char) -> bool {
    in_table(NAME_START, c as u32)
}

pub fn is_name_char(c: char) -> bool {
    in_table(NAME_START, c as u32) || in_table(NAME_EXTRA, c as u32)
}

pub fn is_pubid_char(c: char) -> bool {
    let u = c as u32;
    u == 0x20
        || u == 0xD
        || u == 0xA
        || c.is_ascii_alphanumeric()
        || "-'()+,./:=?;!*#@$_%".contains(c)
}

/// the repeated part of production [81]: [A-Za-z0-9._] | '-'
pub fn is_enc_name_char(c: char) -> bool {
    c.is_ascii_alphanumeric() || c == '.' || c == '_' || c == '-'
}

pub fn is_space(c: char) -> bool {
    matches!(c, ' ' | '\t' | '\r' | '\n')
}

pub fn is_name(s: &str) -> bool {
    let mut it = s.chars();
    match it.next() {
        Some(c) if is_name_start(c) => it.all(is_name_char),
        _ => false,
    }
}

pub fn is_nmtoken(s: &str) -> bool {
    !s.is_empty() && s.chars().all(is_name_char)
}

pub fn is_ncname(s: &str) -> bool {
    is_name(s) && !s.contains(':')
}

pub fn is_qname(s: &str) -> bool {
    match s.split_once(':') {
        None => is_ncname(s),
        Some((p, l)) => is_ncname(p) && is_ncname(l),
    }
}

pub fn split_qname(s: &str) -> (Option<&str>, &str) {
    match s.split_once(':') {
        None => (None, s),
        Some((p, l)) => (Some(p), l),
    }
}

pub fn is_enc_name(s: &str) -> bool {
    let mut it = s.chars();
    match it.next() {
        Some(c) if c.is_ascii_alphabetic() => it.all(is_enc_name_char),
        _ => false,
    }
}
