//! Reference DOM Level 1 tree: a boring Vec-based model applied in lock-step with the real DOM.
//! For every call it returns either the set of acceptable successor trees or the set of DOM
//! exception classes that DOM Level 1 allows for that (state, call).

use super::chars;

#[derive(Clone, Copy, Debug, PartialEq, Eq, Hash)]
pub enum Kind {
    Document,
    Element,
    Attr,
    Text,
    CData,
    Comment,
    PI,
    EntityRef,
    DocType,
    Other,
}

impl Kind {
    pub fn tag(self) -> &'static str {
        match self {
            Kind::Document => "doc",
            Kind::Element => "elem",
            Kind::Attr => "attr",
            Kind::Text => "text",
            Kind::CData => "cdata",
            Kind::Comment => "comment",
            Kind::PI => "pi",
            Kind::EntityRef => "ref",
            Kind::DocType => "doctype",
            Kind::Other => "other",
        }
    }
    pub fn can_have_children(self) -> bool {
        matches!(self, Kind::Document | Kind::Element | Kind::Attr)
    }
}

#[derive(Clone, Debug, PartialEq, Eq, Hash)]
pub struct MNode {
    pub kind: Kind,
    pub name: String,
    /// node value: data for text/comment/cdata/pi; for attributes derived from children
    pub value: String,
    pub parent: Option<usize>,
    pub children: Vec<usize>,
    /// element: attribute node handles
    pub attrs: Vec<usize>,
    /// attribute: owner element
    pub owner: Option<usize>,
    /// 0 = the document under edit, 1 = the foreign document
    pub doc: u8,
}

#[derive(Clone, Debug, PartialEq, Eq, Hash, Default)]
pub struct MDom {
    pub nodes: Vec<MNode>,
}

#[derive(Clone, Copy, Debug, PartialEq, Eq, Hash, PartialOrd, Ord)]
pub enum Exc {
    IndexSize,
    Hierarchy,
    WrongDocument,
    InvalidCharacter,
    NoDataAllowed,
    NoModification,
    NotFound,
    NotSupported,
    InUse,
    /// an error that is not a DOMException (Info/Parse errors the lenient mapping cannot place)
    OtherError,
}

#[derive(Clone, Debug, PartialEq, Eq, Hash)]
pub enum Op {
    Append(usize, usize),
    InsertBefore(usize, usize, Option<usize>),
    Replace(usize, usize, usize),
    Remove(usize, usize),
    CreateElement(String),
    CreateText(String),
    CreateComment(String),
    CreateCData(String),
    CreatePI(String, String),
    CreateAttribute(String),
    CreateEntityRef(String),
    SetAttribute(usize, String, String),
    RemoveAttribute(usize, String),
    SetAttributeNode(usize, usize),
    RemoveAttributeNode(usize, usize),
    SetNamedItem(usize, usize),
    RemoveNamedItem(usize, String),
    SplitText(usize, usize),
    /// Element.normalize()
    Normalize(usize),
    SetNodeValue(usize, String),
    // character data (C16 / C15)
    AppendData(usize, String),
    InsertData(usize, usize, String),
    DeleteData(usize, usize, usize),
    ReplaceData(usize, usize, usize, String),
    SetData(usize, String),
    SubstringData(usize, usize, usize),
}

pub const FS: char = '\u{1f}';
pub const RS: char = '\u{1e}';

fn h(o: Option<usize>) -> String {
    match o {
        Some(v) => v.to_string(),
        None => "-".into(),
    }
}

impl Op {
    pub fn encode(&self) -> String {
        let f = FS;
        match self {
            Op::Append(p, c) => format!("app{f}{p}{f}{c}"),
            Op::InsertBefore(p, c, r) => format!("ins{f}{p}{f}{c}{f}{}", h(*r)),
            Op::Replace(p, n, o) => format!("rep{f}{p}{f}{n}{f}{o}"),
            Op::Remove(p, c) => format!("rem{f}{p}{f}{c}"),
            Op::CreateElement(n) => format!("cel{f}{n}"),
            Op::CreateText(n) => format!("ctx{f}{n}"),
            Op::CreateComment(n) => format!("cco{f}{n}"),
            Op::CreateCData(n) => format!("ccd{f}{n}"),
            Op::CreatePI(t, d) => format!("cpi{f}{t}{f}{d}"),
            Op::CreateAttribute(n) => format!("cat{f}{n}"),
            Op::CreateEntityRef(n) => format!("cer{f}{n}"),
            Op::SetAttribute(e, n, v) => format!("sat{f}{e}{f}{n}{f}{v}"),
            Op::RemoveAttribute(e, n) => format!("rat{f}{e}{f}{n}"),
            Op::SetAttributeNode(e, a) => format!("san{f}{e}{f}{a}"),
            Op::RemoveAttributeNode(e, a) => format!("ran{f}{e}{f}{a}"),
            Op::SetNamedItem(e, a) => format!("sni{f}{e}{f}{a}"),
            Op::RemoveNamedItem(e, n) => format!("rni{f}{e}{f}{n}"),
            Op::SplitText(t, k) => format!("spl{f}{t}{f}{k}"),
            Op::Normalize(e) => format!("nrm{f}{e}"),
            Op::SetNodeValue(n, v) => format!("snv{f}{n}{f}{v}"),
            Op::AppendData(n, s) => format!("apd{f}{n}{f}{s}"),
            Op::InsertData(n, o, s) => format!("ind{f}{n}{f}{o}{f}{s}"),
            Op::DeleteData(n, o, c) => format!("ded{f}{n}{f}{o}{f}{c}"),
            Op::ReplaceData(n, o, c, s) => format!("red{f}{n}{f}{o}{f}{c}{f}{s}"),
            Op::SetData(n, s) => format!("sed{f}{n}{f}{s}"),
            Op::SubstringData(n, o, c) => format!("sub{f}{n}{f}{o}{f}{c}"),
        }
    }

    pub fn decode(s: &str) -> Option<Op> {
        let p: Vec<&str> = s.split(FS).collect();
        let n = |i: usize| -> Option<usize> { p.get(i)?.parse().ok() };
        let st = |i: usize| -> Option<String> { p.get(i).map(|x| x.to_string()) };
        Some(match *p.first()? {
            "app" => Op::Append(n(1)?, n(2)?),
            "ins" => Op::InsertBefore(n(1)?, n(2)?, if p.get(3) == Some(&"-") { None } else { Some(n(3)?) }),
            "rep" => Op::Replace(n(1)?, n(2)?, n(3)?),
            "rem" => Op::Remove(n(1)?, n(2)?),
            "cel" => Op::CreateElement(st(1)?),
            "ctx" => Op::CreateText(st(1)?),
            "cco" => Op::CreateComment(st(1)?),
            "ccd" => Op::CreateCData(st(1)?),
            "cpi" => Op::CreatePI(st(1)?, st(2)?),
            "cat" => Op::CreateAttribute(st(1)?),
            "cer" => Op::CreateEntityRef(st(1)?),
            "sat" => Op::SetAttribute(n(1)?, st(2)?, st(3)?),
            "rat" => Op::RemoveAttribute(n(1)?, st(2)?),
            "san" => Op::SetAttributeNode(n(1)?, n(2)?),
            "ran" => Op::RemoveAttributeNode(n(1)?, n(2)?),
            "sni" => Op::SetNamedItem(n(1)?, n(2)?),
            "rni" => Op::RemoveNamedItem(n(1)?, st(2)?),
            "spl" => Op::SplitText(n(1)?, n(2)?),
            "nrm" => Op::Normalize(n(1)?),
            "snv" => Op::SetNodeValue(n(1)?, st(2)?),
            "apd" => Op::AppendData(n(1)?, st(2)?),
            "ind" => Op::InsertData(n(1)?, n(2)?, st(3)?),
            "ded" => Op::DeleteData(n(1)?, n(2)?, n(3)?),
            "red" => Op::ReplaceData(n(1)?, n(2)?, n(3)?, st(4)?),
            "sed" => Op::SetData(n(1)?, st(2)?),
            "sub" => Op::SubstringData(n(1)?, n(2)?, n(3)?),
            _ => return None,
        })
    }

    pub fn method(&self) -> &'static str {
        match self {
            Op::Append(..) => "append_child",
            Op::InsertBefore(..) => "insert_before",
            Op::Replace(..) => "replace_child",
            Op::Remove(..) => "remove_child",
            Op::CreateElement(..) => "create_element",
            Op::CreateText(..) => "create_text_node",
            Op::CreateComment(..) => "create_comment",
            Op::CreateCData(..) => "create_cdata_section",
            Op::CreatePI(..) => "create_processing_instruction",
            Op::CreateAttribute(..) => "create_attribute",
            Op::CreateEntityRef(..) => "create_entity_reference",
            Op::SetAttribute(..) => "set_attribute",
            Op::RemoveAttribute(..) => "remove_attribute",
            Op::SetAttributeNode(..) => "set_attribute_node",
            Op::RemoveAttributeNode(..) => "remove_attribute_node",
            Op::SetNamedItem(..) => "set_named_item",
            Op::RemoveNamedItem(..) => "remove_named_item",
            Op::SplitText(..) => "split_text",
            Op::Normalize(..) => "normalize",
            Op::SetNodeValue(..) => "set_node_value",
            Op::AppendData(..) => "append_data",
            Op::InsertData(..) => "insert_data",
            Op::DeleteData(..) => "delete_data",
            Op::ReplaceData(..) => "replace_data",
            Op::SetData(..) => "set_data",
            Op::SubstringData(..) => "substring_data",
        }
    }
}

pub fn decode_history(s: &str) -> Vec<Op> {
    if s.is_empty() {
        return vec![];
    }
    s.split(RS).filter_map(Op::decode).collect()
}

pub fn encode_history(ops: &[Op]) -> String {
    ops.iter().map(|o| o.encode()).collect::<Vec<_>>().join(&RS.to_string())
}

/// What DOM Level 1 allows for a call.
#[derive(Clone, Debug)]
pub struct Expect {
    /// acceptable successor states with the handle of the returned node (if the method returns one)
    pub ok: Vec<(MDom, Option<usize>)>,
    /// acceptable exception classes
    pub fail: Vec<Exc>,
    /// any failure at all is acceptable as well (the specification is silent or the value cannot
    /// be represented) — failure must still be atomic
    pub any_error: bool,
    /// a string result (substring_data)
    pub text: Option<String>,
}

impl Expect {
    fn ok1(d: MDom, ret: Option<usize>) -> Expect {
        Expect { ok: vec![(d, ret)], fail: vec![], any_error: false, text: None }
    }
    fn fail(v: Vec<Exc>) -> Expect {
        Expect { ok: vec![], fail: v, any_error: false, text: None }
    }
}

pub fn chars_len(s: &str) -> usize {
    s.chars().count()
}

pub fn char_slice(s: &str, from: usize, to: usize) -> String {
    s.chars().skip(from).take(to.saturating_sub(from)).collect()
}

/// strings that DOM cannot store in this node kind without changing what a re-parse sees
pub fn representable(kind: Kind, s: &str) -> bool {
    if !s.chars().all(chars::is_char) {
        return false;
    }
    match kind {
        Kind::Text => !s.contains('<') && !s.contains('&') && !s.contains("]]>"),
        Kind::Comment => !s.contains("--") && !s.ends_with('-'),
        Kind::CData => !s.contains("]]>"),
        Kind::PI => !s.contains("?>"),
        Kind::Attr => !s.contains('<') && !s.contains('&') && !(s.contains('"') && s.contains('\'')),
        _ => true,
    }
}

impl MDom {
    pub fn kind(&self, h: usize) -> Kind {
        self.nodes[h].kind
    }

    fn push(&mut self, n: MNode) -> usize {
        self.nodes.push(n);
        self.nodes.len() - 1
    }

    pub fn new_node(&mut self, kind: Kind, name: &str, value: &str) -> usize {
        self.push(MNode {
            kind,
            name: name.to_string(),
            value: value.to_string(),
            parent: None,
            children: vec![],
            attrs: vec![],
            owner: None,
            doc: 0,
        })
    }

    pub fn is_ancestor_or_self(&self, anc: usize, node: usize) -> bool {
        let mut cur = Some(node);
        let mut guard = 0;
        while let Some(c) = cur {
            if c == anc {
                return true;
            }
            cur = self.nodes[c].parent;
            guard += 1;
            if guard > self.nodes.len() + 1 {
                return true;
            }
        }
        false
    }

    fn allowed_child(&self, parent: usize, child: usize) -> bool {
        let pk = self.kind(parent);
        let ck = self.kind(child);
        match pk {
            Kind::Document => matches!(ck, Kind::Element | Kind::DocType | Kind::PI | Kind::Comment),
            Kind::Element => matches!(ck, Kind::Element | Kind::Text | Kind::Comment | Kind::PI | Kind::CData | Kind::EntityRef),
            Kind::Attr => matches!(ck, Kind::Text | Kind::EntityRef),
            _ => false,
        }
    }

    fn detach(&mut self, child: usize) {
        if let Some(p) = self.nodes[child].parent.take() {
            self.nodes[p].children.retain(|c| *c != child);
        }
    }

    /// attribute value = concatenation of its text children (entity refs contribute their name in
    /// braces — the BFS documents only use plain text in attributes)
    pub fn attr_value(&self, a: usize) -> String {
        let mut s = String::new();
        for c in &self.nodes[a].children {
            if self.nodes[*c].kind == Kind::EntityRef {
                // the value of an attribute is the expansion of its children
                s.push_str(match self.nodes[*c].name.as_str() {
                    "amp" => "&",
                    "lt" => "<",
                    "gt" => ">",
                    "apos" => "'",
                    "quot" => "\"",
                    _ => "",
                });
            } else {
                s.push_str(&self.nodes[*c].value);
            }
        }
        s
    }

    fn insert_conditions(&self, p: usize, new: usize, refc: Option<usize>, leaving: Option<usize>) -> (Vec<Exc>, bool) {
        let mut f = vec![];
        let mut silent = false;
        if !self.kind(p).can_have_children() {
            f.push(Exc::Hierarchy);
            if refc.is_some() {
                f.push(Exc::NotFound);
            }
        }
        if self.nodes[new].doc != self.nodes[p].doc {
            f.push(Exc::WrongDocument);
        }
        // ownerDocument of a Document node is null, so "created from a different document" is a
        // defensible reading when the Document node itself is passed as an argument: wrong-document
        // is accepted next to the (always present) hierarchy / not-found condition
        if self.kind(new) == Kind::Document || refc.map(|r| self.kind(r) == Kind::Document).unwrap_or(false) {
            f.push(Exc::WrongDocument);
        }
        if let Some(r) = refc {
            if self.nodes[r].doc != self.nodes[p].doc {
                f.push(Exc::WrongDocument);
                f.push(Exc::NotFound);
            }
            if self.nodes[r].parent != Some(p) {
                f.push(Exc::NotFound);
            }
            if r == new {
                silent = true;
            }
        }
        if self.kind(p).can_have_children() {
            if !self.allowed_child(p, new) {
                f.push(Exc::Hierarchy);
            }
            if self.is_ancestor_or_self(new, p) {
                f.push(Exc::Hierarchy);
            }
            if self.kind(p) == Kind::Document {
                let ck = self.kind(new);
                if matches!(ck, Kind::Element | Kind::DocType)
                    && self.nodes[p].children.iter().any(|c| *c != new && Some(*c) != leaving && self.kind(*c) == ck)
                {
                    f.push(Exc::Hierarchy);
                }
            }
        }
        f.sort();
        f.dedup();
        (f, silent)
    }

    pub fn apply(&self, op: &Op) -> Expect {
        match op {
            Op::Append(p, c) => self.insert(*p, *c, None),
            Op::InsertBefore(p, c, r) => self.insert(*p, *c, *r),
            Op::Replace(p, new, old) => {
                let (mut f, _) = self.insert_conditions(*p, *new, Some(*old), Some(*old));
                if new == old {
                    // DOM Level 1 is silent: unchanged success or any failure
                    let mut e = Expect::ok1(self.clone(), Some(*old));
                    e.fail = f;
                    e.any_error = true;
                    // a success may also leave the node detached-and-returned; accept only unchanged
                    return e;
                }
                if !f.is_empty() {
                    f.sort();
                    f.dedup();
                    return Expect::fail(f);
                }
                let doc_own_child = self.kind(*p) == Kind::Document
                    && ((self.kind(*new) == Kind::Element && self.nodes[*new].parent == Some(*p)) || self.kind(*new) == Kind::DocType);
                let mut d = self.clone();
                d.detach(*new);
                let pos = d.nodes[*p].children.iter().position(|c| c == old).unwrap();
                d.nodes[*p].children[pos] = *new;
                d.nodes[*new].parent = Some(*p);
                d.nodes[*old].parent = None;
                let mut e = Expect::ok1(d, Some(*old));
                if doc_own_child {
                    e.fail = vec![Exc::Hierarchy, Exc::NoModification];
                }
                if self.unrepresentable_move(*p, *new) {
                    e.any_error = true;
                }
                e
            }
            Op::Remove(p, c) => {
                let mut f = vec![];
                if !self.kind(*p).can_have_children() {
                    f.push(Exc::Hierarchy);
                    f.push(Exc::NotFound);
                }
                if self.nodes[*c].doc != self.nodes[*p].doc {
                    f.push(Exc::WrongDocument);
                    f.push(Exc::NotFound);
                }
                if self.kind(*c) == Kind::Document {
                    f.push(Exc::WrongDocument);
                }
                if self.nodes[*c].parent != Some(*p) {
                    f.push(Exc::NotFound);
                }
                if self.kind(*p) == Kind::Document && self.kind(*c) == Kind::DocType && f.is_empty() {
                    // removing the doctype: DOM Level 1 treats it as read-only; both are accepted
                    let mut d = self.clone();
                    d.detach(*c);
                    let mut e = Expect::ok1(d, Some(*c));
                    e.fail = vec![Exc::NoModification, Exc::Hierarchy];
                    return e;
                }
                if !f.is_empty() {
                    f.sort();
                    f.dedup();
                    return Expect::fail(f);
                }
                let mut d = self.clone();
                d.detach(*c);
                Expect::ok1(d, Some(*c))
            }
            Op::CreateElement(name) => self.create_named(Kind::Element, name),
            Op::CreateAttribute(name) => self.create_named(Kind::Attr, name),
            Op::CreateText(s) => self.create_data(Kind::Text, "#text", s),
            Op::CreateComment(s) => self.create_data(Kind::Comment, "#comment", s),
            Op::CreateCData(s) => self.create_data(Kind::CData, "#cdata-section", s),
            Op::CreatePI(t, data) => {
                if !chars::is_name(t) {
                    return Expect::fail(vec![Exc::InvalidCharacter]);
                }
                if t.eq_ignore_ascii_case("xml") {
                    return Expect::fail(vec![Exc::InvalidCharacter, Exc::NotSupported]);
                }
                let mut d = self.clone();
                let hnd = d.new_node(Kind::PI, t, data);
                let mut e = Expect::ok1(d, Some(hnd));
                if !representable(Kind::PI, data) || data.starts_with(|c: char| chars::is_space(c)) {
                    // leading white space cannot survive `<?t data?>`; refusing is acceptable
                    e.any_error = true;
                    e.fail = vec![Exc::InvalidCharacter];
                }
                if !chars::is_ncname(t) {
                    e.any_error = true;
                }
                e
            }
            Op::CreateEntityRef(name) => {
                if !chars::is_name(name) {
                    // not a Name, and (in the BFS documents) not declared either: any error
                    return Expect { ok: vec![], fail: vec![Exc::InvalidCharacter], any_error: true, text: None };
                }
                let mut d = self.clone();
                let hnd = d.new_node(Kind::EntityRef, name, "");
                let mut e = Expect::ok1(d, Some(hnd));
                if !matches!(name.as_str(), "amp" | "lt" | "gt" | "apos" | "quot") {
                    // undeclared in the BFS documents: any error (NotSupported, NotFound, …)
                    e.ok.clear();
                    e.any_error = true;
                }
                e
            }
            Op::SetAttribute(el, name, value) => {
                if self.kind(*el) != Kind::Element {
                    return Expect { ok: vec![], fail: vec![], any_error: true, text: None };
                }
                if !chars::is_name(name) {
                    return Expect::fail(vec![Exc::InvalidCharacter]);
                }
                let mut e = Expect { ok: vec![], fail: vec![], any_error: false, text: None };
                if !chars::is_qname(name) || !representable(Kind::Attr, value) {
                    e.any_error = true;
                    e.fail = vec![Exc::InvalidCharacter];
                }
                // (a) value changed in place; (b) attribute node replaced by a fresh one
                let existing = self.nodes[*el].attrs.iter().copied().find(|a| self.nodes[*a].name == *name);
                if let Some(a) = existing {
                    let mut d = self.clone();
                    d.set_attr_value(a, value);
                    e.ok.push((d, None));
                }
                let mut d = self.clone();
                if let Some(a) = existing {
                    d.nodes[*el].attrs.retain(|x| *x != a);
                    d.nodes[a].owner = None;
                }
                let na = d.new_node(Kind::Attr, name, "");
                d.set_attr_value(na, value);
                d.nodes[na].owner = Some(*el);
                d.nodes[*el].attrs.push(na);
                e.ok.push((d, None));
                e
            }
            Op::RemoveAttribute(el, name) | Op::RemoveNamedItem(el, name) => {
                if self.kind(*el) != Kind::Element {
                    return Expect { ok: vec![], fail: vec![], any_error: true, text: None };
                }
                let existing = self.nodes[*el].attrs.iter().copied().find(|a| self.nodes[*a].name == *name);
                match existing {
                    Some(a) => {
                        let mut d = self.clone();
                        d.nodes[*el].attrs.retain(|x| *x != a);
                        d.nodes[a].owner = None;
                        Expect::ok1(d, if matches!(op, Op::RemoveNamedItem(..)) { Some(a) } else { None })
                    }
                    None => {
                        if matches!(op, Op::RemoveNamedItem(..)) {
                            Expect::fail(vec![Exc::NotFound])
                        } else {
                            Expect::ok1(self.clone(), None)
                        }
                    }
                }
            }
            Op::SetAttributeNode(el, a) | Op::SetNamedItem(el, a) => {
                if self.kind(*el) != Kind::Element || self.kind(*a) != Kind::Attr {
                    return Expect { ok: vec![], fail: vec![], any_error: true, text: None };
                }
                let mut f = vec![];
                if self.nodes[*a].doc != self.nodes[*el].doc {
                    f.push(Exc::WrongDocument);
                }
                match self.nodes[*a].owner {
                    Some(o) if o != *el => f.push(Exc::InUse),
                    Some(_) => {
                        // already an attribute of this very element: unchanged success or InUse
                        let mut e = Expect::ok1(self.clone(), Some(*a));
                        e.ok.push((self.clone(), None));
                        e.fail = vec![Exc::InUse];
                        if !f.is_empty() {
                            e.ok.clear();
                            e.fail.extend(f);
                        }
                        return e;
                    }
                    None => {}
                }
                if !f.is_empty() {
                    return Expect::fail(f);
                }
                let name = self.nodes[*a].name.clone();
                let existing = self.nodes[*el].attrs.iter().copied().find(|x| self.nodes[*x].name == name);
                let mut d = self.clone();
                if let Some(x) = existing {
                    d.nodes[*el].attrs.retain(|y| *y != x);
                    d.nodes[x].owner = None;
                }
                d.nodes[*el].attrs.push(*a);
                d.nodes[*a].owner = Some(*el);
                Expect::ok1(d, existing)
            }
            Op::RemoveAttributeNode(el, a) => {
                if self.kind(*el) != Kind::Element || self.kind(*a) != Kind::Attr {
                    return Expect { ok: vec![], fail: vec![], any_error: true, text: None };
                }
                if self.nodes[*a].owner != Some(*el) {
                    let mut f = vec![Exc::NotFound];
                    if self.nodes[*a].doc != self.nodes[*el].doc {
                        f.push(Exc::WrongDocument);
                    }
                    return Expect::fail(f);
                }
                let mut d = self.clone();
                d.nodes[*el].attrs.retain(|x| x != a);
                d.nodes[*a].owner = None;
                Expect::ok1(d, Some(*a))
            }
            Op::SplitText(t, k) => {
                if !matches!(self.kind(*t), Kind::Text | Kind::CData) {
                    return Expect { ok: vec![], fail: vec![], any_error: true, text: None };
                }
                let len = chars_len(&self.nodes[*t].value);
                if *k > len {
                    return Expect::fail(vec![Exc::IndexSize]);
                }
                let mut d = self.clone();
                let v = d.nodes[*t].value.clone();
                let kind = d.kind(*t);
                let name = d.nodes[*t].name.clone();
                d.nodes[*t].value = char_slice(&v, 0, *k);
                let n2 = d.new_node(kind, &name, &char_slice(&v, *k, len));
                match self.nodes[*t].parent {
                    Some(p) => {
                        let pos = d.nodes[p].children.iter().position(|c| c == t).unwrap();
                        d.nodes[p].children.insert(pos + 1, n2);
                        d.nodes[n2].parent = Some(p);
                        d.refresh_attr_value(p);
                        Expect::ok1(d, Some(n2))
                    }
                    None => {
                        // parentless: the new node has nowhere to go; success or hierarchy request
                        let mut e = Expect::ok1(d, Some(n2));
                        e.fail = vec![Exc::Hierarchy, Exc::NoModification];
                        e.any_error = true;
                        e
                    }
                }
            }
            Op::Normalize(e) => {
                if self.kind(*e) != Kind::Element {
                    return Expect { ok: vec![], fail: vec![], any_error: true, text: None };
                }
                // in the whole subtree: empty Text nodes leave, of adjacent Text nodes the first takes the data of the
                // others, which leave (DOM Level 1: "only markup separates Text nodes"); CDATA sections are markup
                fn norm(d: &mut MDom, e: usize) {
                    let kids = d.nodes[e].children.clone();
                    let mut keep: Vec<usize> = vec![];
                    for c in kids {
                        match d.kind(c) {
                            Kind::Text => {
                                if d.nodes[c].value.is_empty() {
                                    d.nodes[c].parent = None;
                                    continue;
                                }
                                if let Some(&p) = keep.last() {
                                    if d.kind(p) == Kind::Text {
                                        let v = d.nodes[c].value.clone();
                                        d.nodes[p].value.push_str(&v);
                                        d.nodes[c].parent = None;
                                        continue;
                                    }
                                }
                                keep.push(c);
                            }
                            Kind::Element => {
                                norm(d, c);
                                keep.push(c);
                            }
                            _ => keep.push(c),
                        }
                    }
                    d.nodes[e].children = keep;
                }
                let mut d = self.clone();
                norm(&mut d, *e);
                Expect::ok1(d, None)
            }
            Op::SetNodeValue(n, v) => match self.kind(*n) {
                Kind::Text | Kind::Comment | Kind::CData | Kind::PI => self.set_data(*n, v),
                Kind::Attr => {
                    let mut d = self.clone();
                    d.set_attr_value(*n, v);
                    let mut e = Expect::ok1(d, None);
                    if !representable(Kind::Attr, v) {
                        e.any_error = true;
                    }
                    e
                }
                _ => {
                    let mut e = Expect::ok1(self.clone(), None);
                    e.fail = vec![Exc::NoDataAllowed, Exc::NoModification];
                    e
                }
            },
            Op::AppendData(n, s) => self.data_op(*n, |v| Ok(format!("{}{}", v, s))),
            Op::InsertData(n, o, s) => self.data_op(*n, |v| {
                let len = chars_len(v);
                if *o > len {
                    return Err(Exc::IndexSize);
                }
                Ok(format!("{}{}{}", char_slice(v, 0, *o), s, char_slice(v, *o, len)))
            }),
            Op::DeleteData(n, o, c) => self.data_op(*n, |v| {
                let len = chars_len(v);
                if *o > len {
                    return Err(Exc::IndexSize);
                }
                let end = o.saturating_add(*c).min(len);
                Ok(format!("{}{}", char_slice(v, 0, *o), char_slice(v, end, len)))
            }),
            Op::ReplaceData(n, o, c, s) => self.data_op(*n, |v| {
                let len = chars_len(v);
                if *o > len {
                    return Err(Exc::IndexSize);
                }
                let end = o.saturating_add(*c).min(len);
                Ok(format!("{}{}{}", char_slice(v, 0, *o), s, char_slice(v, end, len)))
            }),
            Op::SetData(n, s) => self.data_op(*n, |_| Ok(s.clone())),
            Op::SubstringData(n, o, c) => {
                if !matches!(self.kind(*n), Kind::Text | Kind::Comment | Kind::CData) {
                    return Expect { ok: vec![], fail: vec![], any_error: true, text: None };
                }
                let v = &self.nodes[*n].value;
                let len = chars_len(v);
                if *o > len {
                    return Expect::fail(vec![Exc::IndexSize]);
                }
                let end = o.saturating_add(*c).min(len);
                let mut e = Expect::ok1(self.clone(), None);
                e.text = Some(char_slice(v, *o, end));
                e
            }
        }
    }

    fn data_op(&self, n: usize, f: impl Fn(&str) -> Result<String, Exc>) -> Expect {
        if !matches!(self.kind(n), Kind::Text | Kind::Comment | Kind::CData) {
            return Expect { ok: vec![], fail: vec![], any_error: true, text: None };
        }
        match f(&self.nodes[n].value) {
            Err(e) => Expect::fail(vec![e]),
            Ok(nv) => self.set_data(n, &nv),
        }
    }

    fn set_data(&self, n: usize, v: &str) -> Expect {
        let mut d = self.clone();
        d.nodes[n].value = v.to_string();
        if let Some(p) = d.nodes[n].parent {
            d.refresh_attr_value(p);
        }
        let mut e = Expect::ok1(d, None);
        let kind = self.kind(n);
        let in_attr = self.nodes[n].parent.map(|p| self.kind(p) == Kind::Attr).unwrap_or(false);
        if !representable(kind, v) || (in_attr && !representable(Kind::Attr, v)) {
            // the value cannot be stored faithfully: refusing is acceptable (C15 judges the rest)
            e.any_error = true;
        }
        e
    }

    fn refresh_attr_value(&mut self, p: usize) {
        if self.kind(p) == Kind::Attr {
            self.nodes[p].value = self.attr_value(p);
        }
    }

    /// replace the children of an attribute by one text node holding `value` (none if empty)
    pub fn set_attr_value(&mut self, a: usize, value: &str) {
        let old: Vec<usize> = std::mem::take(&mut self.nodes[a].children);
        for c in old {
            self.nodes[c].parent = None;
        }
        if !value.is_empty() {
            let t = self.new_node(Kind::Text, "#text", value);
            self.nodes[t].parent = Some(a);
            self.nodes[a].children.push(t);
        }
        self.nodes[a].value = value.to_string();
    }

    fn create_named(&self, kind: Kind, name: &str) -> Expect {
        if !chars::is_name(name) {
            return Expect::fail(vec![Exc::InvalidCharacter]);
        }
        let mut d = self.clone();
        let hnd = d.new_node(kind, name, "");
        let mut e = Expect::ok1(d, Some(hnd));
        if !chars::is_qname(name) || name == "xmlns" || name.starts_with("xmlns:") {
            // a Name that is not a QName (a:b:c, :a), or a namespace declaration: DOM Level 1 knows
            // no namespaces; refusing is acceptable
            e.any_error = true;
            e.fail = vec![Exc::InvalidCharacter];
        }
        e
    }

    fn create_data(&self, kind: Kind, name: &str, data: &str) -> Expect {
        let mut d = self.clone();
        let hnd = d.new_node(kind, name, data);
        let mut e = Expect::ok1(d, Some(hnd));
        if !representable(kind, data) {
            e.any_error = true;
        }
        e
    }

    fn insert(&self, p: usize, new: usize, refc: Option<usize>) -> Expect {
        let (f, silent) = self.insert_conditions(p, new, refc, None);
        if silent {
            let mut e = Expect::ok1(self.clone(), Some(new));
            e.fail = f;
            e.any_error = true;
            if !e.fail.is_empty() {
                e.ok.clear();
            }
            return e;
        }
        if !f.is_empty() {
            return Expect::fail(f);
        }
        // re-inserting the document's own element / doctype into the document: DOM Level 1 says a
        // node already in the tree is first removed (so the move is legal), but refusing it as a
        // second element / doctype is a common reading too: both are accepted
        // (DOM Level 1 has no way to add a doctype at all, so putting a removed doctype back may be
        // refused as well)
        let doc_own_child = self.kind(p) == Kind::Document
            && ((self.kind(new) == Kind::Element && self.nodes[new].parent == Some(p)) || self.kind(new) == Kind::DocType);
        let mut d = self.clone();
        d.detach(new);
        match refc {
            Some(r) => {
                let pos = d.nodes[p].children.iter().position(|c| *c == r).unwrap();
                d.nodes[p].children.insert(pos, new);
            }
            None => d.nodes[p].children.push(new),
        }
        d.nodes[new].parent = Some(p);
        d.refresh_attr_value(p);
        let mut e = Expect::ok1(d, Some(new));
        if doc_own_child {
            e.fail = vec![Exc::Hierarchy, Exc::NoModification];
        }
        if self.unrepresentable_move(p, new) {
            e.any_error = true;
        }
        e
    }

    /// a Text node whose data an attribute can hold and element content cannot ("]]>", written in an
    /// attribute value) is moved out of its attribute: DOM Level 1 has no exception for it, the
    /// serialization could not say it; success and an (atomic) refusal are both accepted
    fn unrepresentable_move(&self, p: usize, new: usize) -> bool {
        self.kind(new) == Kind::Text && self.kind(p) != Kind::Attr && !representable(Kind::Text, &self.nodes[new].value)
    }

    /// canonical dump of the structural state (handles as numbers); `extra` appends per-node text
    pub fn core_dump(&self) -> String {
        let mut s = String::new();
        for (i, n) in self.nodes.iter().enumerate() {
            if n.doc != 0 {
                continue;
            }
            let mut attrs: Vec<String> = n.attrs.iter().map(|a| format!("{}={}", self.nodes[*a].name, a)).collect();
            attrs.sort();
            s.push_str(&format!(
                "{} {} {} {:?} parent={} children={:?} attrs=[{}] owner={}\n",
                i,
                n.kind.tag(),
                n.name,
                if n.kind == Kind::Attr { self.attr_value(i) } else { n.value.clone() },
                h(n.parent),
                n.children,
                attrs.join(","),
                h(n.owner)
            ));
        }
        s
    }
}
