//! Small-scope universe of abstract documents: element skeletons with at most k *decorations*
//! (deviations from the bare skeleton), enumerated completely and simplest-first.

use super::adoc::*;

/// Skeletons: all ordered trees with 1..=max elements; element i is named a, b, a, b … by
/// pre-order position so that same-named cousins and siblings both occur.
pub fn skeletons(max: usize) -> Vec<AElem> {
    fn trees(n: usize) -> Vec<Vec<AElemShape>> {
        // forests with n nodes
        if n == 0 {
            return vec![vec![]];
        }
        let mut out = vec![];
        for first in 1..=n {
            // first tree has `first` nodes: root + forest of first-1
            for kids in trees(first - 1) {
                for rest in trees(n - first) {
                    let mut f = vec![AElemShape { kids: kids.clone() }];
                    f.extend(rest.iter().cloned());
                    out.push(f);
                }
            }
        }
        out
    }
    #[derive(Clone)]
    struct AElemShape {
        kids: Vec<AElemShape>,
    }
    fn build(s: &AElemShape, counter: &mut usize) -> AElem {
        let name = if *counter == 0 {
            "r"
        } else if *counter % 2 == 1 {
            "a"
        } else {
            "b"
        };
        *counter += 1;
        let mut e = el(name, vec![], vec![]);
        for k in &s.kids {
            e.children.push(ANode::Elem(build(k, counter)));
        }
        e
    }
    let mut out = vec![];
    for n in 1..=max {
        for kids in trees(n - 1) {
            let shape = AElemShape { kids };
            let mut c = 0;
            out.push(build(&shape, &mut c));
        }
    }
    out
}

#[derive(Clone, Debug)]
pub enum Deco {
    Rename(usize, &'static str),
    Attr(usize, &'static str, Vec<Part>),
    /// (element index, at front?, node)
    Child(usize, bool, ANode),
    Decl(ADecl),
    Decls(Vec<ADecl>),
    /// declaration plus a use of it in the root element
    DeclAndChild(ADecl, ANode),
    DeclAndAttr(ADecl, &'static str, Vec<Part>),
    XmlDecl(XmlDecl),
    Pre(ANode),
    Mid(ANode),
    Post(ANode),
    BareDoctype(bool),
    /// several declarations plus a use in the root element
    DeclsAndChild(Vec<ADecl>, ANode),
    DeclsAndAttr(Vec<ADecl>, &'static str, Vec<Part>),
    /// several attributes on one element
    Attrs(usize, Vec<(&'static str, Vec<Part>)>),
    /// external identifier of the DOCTYPE: (public, system)
    ExternalId(Option<&'static str>, &'static str),
}

#[derive(Clone, Debug)]
pub struct LDeco {
    pub label: String,
    pub deco: Deco,
}

fn t(s: &str) -> Vec<Part> {
    vec![Part::Text(s.to_string())]
}

pub fn count_elems(e: &AElem) -> usize {
    1 + e.children.iter().map(|c| if let ANode::Elem(x) = c { count_elems(x) } else { 0 }).sum::<usize>()
}

fn nth_elem_mut(e: &mut AElem, n: &mut usize) -> Option<*mut AElem> {
    if *n == 0 {
        return Some(e as *mut AElem);
    }
    *n -= 1;
    for c in e.children.iter_mut() {
        if let ANode::Elem(x) = c {
            if let Some(p) = nth_elem_mut(x, n) {
                return Some(p);
            }
        }
    }
    None
}

fn with_elem(root: &mut AElem, idx: usize, f: impl FnOnce(&mut AElem)) {
    let mut n = idx;
    if let Some(p) = nth_elem_mut(root, &mut n) {
        // single mutable access, no aliasing: the pointer is used once and dropped
        unsafe { f(&mut *p) }
    }
}

fn ent(name: &str, value: Vec<Part>) -> ADecl {
    ADecl::Entity { name: name.to_string(), value }
}

fn attlist(elem: &str, name: &str, ty: &str, default: ADefault) -> ADecl {
    ADecl::AttList { elem: elem.to_string(), defs: vec![AAttDef { name: name.to_string(), ty: ty.to_string(), default }] }
}

/// Child-node decorations (content items).
pub fn child_menu() -> Vec<(&'static str, ANode)> {
    vec![
        ("text-t", tx("t")),
        ("text-sp", tx(" ")),
        ("text-nl", tx("\n")),
        ("text-1", tx("1")),
        ("text-gt", tx("a>b")),
        ("text-rbrack", tx("]]")),
        ("text-quotes", tx("'\"")),
        ("text-nonascii", tx("é日😀")),
        ("text-tab-nl", tx("a\t\nb")),
        ("charref-A", ANode::CharRef('A')),
        ("charref-lt", ANode::CharRef('<')),
        ("charref-amp", ANode::CharRef('&')),
        ("charref-e9", ANode::CharRef('\u{e9}')),
        ("charref-astral", ANode::CharRef('\u{10000}')),
        ("charref-tab", ANode::CharRef('\t')),
        ("entref-amp", ANode::EntRef("amp".into())),
        ("entref-lt", ANode::EntRef("lt".into())),
        ("entref-gt", ANode::EntRef("gt".into())),
        ("entref-apos", ANode::EntRef("apos".into())),
        ("entref-quot", ANode::EntRef("quot".into())),
        ("cdata-c", ANode::CData("c".into())),
        ("cdata-markup", ANode::CData("<&>".into())),
        ("cdata-empty", ANode::CData("".into())),
        ("cdata-rbrack", ANode::CData("]]".into())),
        ("comment-k", ANode::Comment("k".into())),
        ("comment-empty", ANode::Comment("".into())),
        ("comment-dash", ANode::Comment("a-b".into())),
        ("comment-markup", ANode::Comment("<x>&y;".into())),
        ("pi-t", ANode::PI("t".into(), None)),
        ("pi-t-d", ANode::PI("t".into(), Some("d".into()))),
        ("pi-t-empty", ANode::PI("t".into(), Some("".into()))),
        ("pi-xmls", ANode::PI("xml-s".into(), Some("d ?".into()))),
        ("pi-x", ANode::PI("x".into(), Some("<&>".into()))),
        ("elem-c", e("c", vec![], vec![])),
    ]
}

pub fn attr_menu() -> Vec<(&'static str, &'static str, Vec<Part>)> {
    vec![
        ("attr-x", "x", t("1")),
        ("attr-y-empty", "y", vec![]),
        ("attr-px", "p:x", t("v")),
        ("attr-xmlnsx", "xmlnsx", t("v")),
        ("attr-xml-lang", "xml:lang", t("en")),
        ("attr-x-sp", "x", t("a b")),
        ("attr-x-ws", "x", t(" a\tb\nc ")),
        ("attr-x-charref", "x", vec![Part::Text("a".into()), Part::CharRef('B'), Part::Text("c".into())]),
        ("attr-x-charref-nl", "x", vec![Part::CharRef('\n')]),
        ("attr-x-amp", "x", vec![Part::EntRef("amp".into())]),
        ("attr-x-lt", "x", vec![Part::Text("a".into()), Part::EntRef("lt".into())]),
        ("attr-x-quot", "x", vec![Part::EntRef("quot".into())]),
        ("attr-x-sq", "x", t("it's")),
        ("attr-x-dq", "x", t("say \"hi\"")),
        ("attr-x-gt", "x", t("a>b")),
        // white space that is not XML white space stays what it is (only #x20, #x9, #xD, #xA are normalized)
        ("attr-x-nbsp", "x", t("10\u{a0}km\u{3000}\u{2028}z")),
        // quote characters in one text piece, a reference, then a text piece without them (and the
        // other way round): the delimiter must be chosen for the value as a whole
        ("attr-x-dq-ref-plain", "x", vec![Part::Text("\"x\"".into()), Part::EntRef("amp".into()), Part::Text("y".into())]),
        ("attr-x-plain-ref-dq", "x", vec![Part::Text("y".into()), Part::CharRef('B'), Part::Text("\"x\"".into())]),
        ("attr-x-sq-ref-plain", "x", vec![Part::Text("it's".into()), Part::EntRef("lt".into()), Part::Text("z".into())]),
        ("attr-z", "z", t("é")),
        ("attr-x-charref-cr", "x", vec![Part::CharRef('\r')]),
        ("nsdecl-default", "xmlns", t("u1")),
        ("nsdecl-p", "xmlns:p", t("u2")),
        ("nsdecl-undeclare", "xmlns", vec![]),
    ]
}

pub fn rename_menu() -> Vec<&'static str> {
    vec!["p:a", "xmlnsx", "xml-s", "x", "xm", "text", "or", "div", "é", "a.b-c_d", "A1"]
}

pub fn doc_menu(root_name: &str) -> Vec<LDeco> {
    let mut v = vec![];
    let mut push = |label: &str, d: Deco| v.push(LDeco { label: label.to_string(), deco: d });
    push("xmldecl-v", Deco::XmlDecl(XmlDecl { version: "1.0".into(), encoding: None, standalone: None }));
    push("xmldecl-v11", Deco::XmlDecl(XmlDecl { version: "1.1".into(), encoding: None, standalone: None }));
    push("xmldecl-enc", Deco::XmlDecl(XmlDecl { version: "1.0".into(), encoding: Some("UTF-8".into()), standalone: None }));
    push("xmldecl-sa-yes", Deco::XmlDecl(XmlDecl { version: "1.0".into(), encoding: None, standalone: Some(true) }));
    push("xmldecl-sa-no", Deco::XmlDecl(XmlDecl { version: "1.0".into(), encoding: None, standalone: Some(false) }));
    push(
        "xmldecl-all",
        Deco::XmlDecl(XmlDecl { version: "1.0".into(), encoding: Some("utf-8".into()), standalone: Some(true) }),
    );
    push("pre-comment", Deco::Pre(ANode::Comment("k".into())));
    push("pre-pi", Deco::Pre(ANode::PI("t".into(), Some("d".into()))));
    // targets that begin like the XML declaration
    push("pre-pi-xml-stylesheet", Deco::Pre(ANode::PI("xml-stylesheet".into(), Some("href='a.xsl'".into()))));
    push("pre-pi-xmlns", Deco::Pre(ANode::PI("xmlns".into(), None)));
    push("mid-comment", Deco::Mid(ANode::Comment("m".into())));
    push("mid-pi", Deco::Mid(ANode::PI("u".into(), None)));
    push("post-comment", Deco::Post(ANode::Comment("z".into())));
    push("post-pi", Deco::Post(ANode::PI("q".into(), None)));
    push("doctype-bare", Deco::BareDoctype(false));
    push("doctype-empty-subset", Deco::BareDoctype(true));
    // an external identifier, alone and (as a second decoration) together with every declaration of the internal subset
    push("doctype-system", Deco::ExternalId(None, "r.dtd"));
    push("doctype-public", Deco::ExternalId(Some("-//X//DTD r//EN"), "http://x.example/r.dtd"));
    push("decl-entity", Deco::Decl(ent("e", t("v"))));
    push("decl-entity-empty", Deco::Decl(ent("e0", vec![])));
    push("decl-entity-quotes", Deco::Decl(ent("eq", t("it's"))));
    push("decl-entity-charref", Deco::Decl(ent("ec", vec![Part::Text("a".into()), Part::CharRef('B')])));
    push("decl-entity-nested", Deco::Decl(ent("en", vec![Part::EntRef("amp".into()), Part::Text("x".into())])));
    push("decl-entity-gt", Deco::Decl(ent("eg", t("a>b"))));
    push(
        "decl-ext-entity-system",
        Deco::Decl(ADecl::ExtEntity { name: "xs".into(), public: None, system: "s.xml".into(), ndata: None }),
    );
    push(
        "decl-ext-entity-public",
        Deco::Decl(ADecl::ExtEntity { name: "xp".into(), public: Some("-//P//EN".into()), system: "p.xml".into(), ndata: None }),
    );
    push(
        "decl-unparsed",
        Deco::Decl(ADecl::ExtEntity { name: "u".into(), public: None, system: "u.gif".into(), ndata: Some("gif".into()) }),
    );
    push(
        "decl-unparsed-public",
        Deco::Decl(ADecl::ExtEntity { name: "up".into(), public: Some("pub id".into()), system: "it's".into(), ndata: Some("n".into()) }),
    );
    push("decl-notation-system", Deco::Decl(ADecl::Notation { name: "gif".into(), public: None, system: Some("image/gif".into()) }));
    push("decl-notation-public", Deco::Decl(ADecl::Notation { name: "n".into(), public: Some("-//N//EN".into()), system: None }));
    push(
        "decl-notation-both",
        Deco::Decl(ADecl::Notation { name: "nb".into(), public: Some("pub".into()), system: Some("sys \"q\"".into()) }),
    );
    for (label, ty) in [
        ("cdata", "CDATA"),
        ("id", "ID"),
        ("idref", "IDREF"),
        ("idrefs", "IDREFS"),
        ("entity", "ENTITY"),
        ("entities", "ENTITIES"),
        ("nmtoken", "NMTOKEN"),
        ("nmtokens", "NMTOKENS"),
        ("enum", "(v|w)"),
        ("notation", "NOTATION (gif)"),
    ] {
        push(&format!("decl-attlist-{}-implied", label), Deco::Decl(attlist(root_name, "d", ty, ADefault::Implied)));
    }
    push("decl-attlist-required", Deco::Decl(attlist(root_name, "d", "CDATA", ADefault::Required)));
    push(
        "decl-attlist-default",
        Deco::Decl(attlist(root_name, "d", "CDATA", ADefault::Value { fixed: false, value: t("v") })),
    );
    push(
        "decl-attlist-fixed",
        Deco::Decl(attlist(root_name, "d", "CDATA", ADefault::Value { fixed: true, value: t("v") })),
    );
    push(
        "decl-attlist-default-nmtokens",
        Deco::Decl(attlist(root_name, "d", "NMTOKENS", ADefault::Value { fixed: false, value: t(" v  w ") })),
    );
    push(
        "decl-attlist-default-enum",
        Deco::Decl(attlist(root_name, "d", "(v|w)", ADefault::Value { fixed: false, value: t("w") })),
    );
    push(
        "decl-attlist-other-element",
        Deco::Decl(attlist("zz", "d", "CDATA", ADefault::Value { fixed: false, value: t("v") })),
    );
    push(
        "decl-attlist-two-defaults",
        Deco::Decl(ADecl::AttList {
            elem: root_name.to_string(),
            defs: vec![
                AAttDef { name: "d".into(), ty: "CDATA".into(), default: ADefault::Value { fixed: false, value: t("1") } },
                AAttDef { name: "d2".into(), ty: "CDATA".into(), default: ADefault::Value { fixed: true, value: t("2") } },
                AAttDef { name: "d3".into(), ty: "(x|y)".into(), default: ADefault::Value { fixed: false, value: t("y") } },
            ],
        }),
    );
    push(
        "decl-attlist-two-defs",
        Deco::Decl(ADecl::AttList {
            elem: root_name.to_string(),
            defs: vec![
                AAttDef { name: "d".into(), ty: "CDATA".into(), default: ADefault::Implied },
                AAttDef { name: "d2".into(), ty: "NMTOKEN".into(), default: ADefault::Value { fixed: false, value: t("w") } },
            ],
        }),
    );
    push("decl-attlist-empty", Deco::Decl(ADecl::AttList { elem: root_name.to_string(), defs: vec![] }));
    push("decl-attlist-prefixed", Deco::Decl(attlist(root_name, "p:d", "CDATA", ADefault::Value { fixed: false, value: t("v") })));
    // namespace declarations defaulted from the DTD: declarations, not attributes
    push("decl-attlist-nsdecl-prefix", Deco::Decl(attlist(root_name, "xmlns:p", "CDATA", ADefault::Value { fixed: false, value: t("urn:dp") })));
    push("decl-attlist-nsdecl-default", Deco::Decl(attlist(root_name, "xmlns", "CDATA", ADefault::Value { fixed: true, value: t("urn:dd") })));
    for (label, spec) in [
        ("empty", "EMPTY"),
        ("any", "ANY"),
        ("pcdata", "(#PCDATA)"),
        ("mixed", "(#PCDATA|a|b)*"),
        ("seq", "(a,b)"),
        ("choice", "(a|b)*"),
        ("nested", "((a|b)+,(b?,a*))?"),
        ("single", "(a)"),
    ] {
        push(&format!("decl-element-{}", label), Deco::Decl(ADecl::Element { name: root_name.to_string(), spec: spec.to_string() }));
    }
    // an entity name declared twice: the first declaration binds (internal then unparsed, and the reverse)
    push(
        "decl-entity-internal-then-unparsed",
        Deco::Decls(vec![
            ent("ed", t("t")),
            ADecl::ExtEntity { name: "ed".into(), public: None, system: "s".into(), ndata: Some("nn".into()) },
            ADecl::Notation { name: "nn".into(), public: None, system: Some("x".into()) },
        ]),
    );
    push(
        "decl-entity-unparsed-then-internal",
        Deco::Decls(vec![
            ADecl::ExtEntity { name: "ed".into(), public: None, system: "s".into(), ndata: Some("nn".into()) },
            ent("ed", t("t")),
            ADecl::Notation { name: "nn".into(), public: None, system: Some("x".into()) },
        ]),
    );
    push("decl-comment", Deco::Decl(ADecl::Comment("dtd comment".into())));
    push("decl-pi", Deco::Decl(ADecl::PI("dp".into(), Some("x".into()))));
    // declaration + use
    push("use-entity", Deco::DeclAndChild(ent("e", t("v")), ANode::EntRef("e".into())));
    push("use-entity-empty", Deco::DeclAndChild(ent("e0", vec![]), ANode::EntRef("e0".into())));
    // an entity that reaches another one twice (not a recursion), directly and through a third
    let twice = vec![ent("ea", t("v")), ent("eb", vec![Part::EntRef("ea".into()), Part::Text("-".into()), Part::EntRef("ea".into())]), ent("ec", vec![Part::EntRef("ea".into()), Part::Text("|".into()), Part::EntRef("eb".into())])];
    push("use-entity-reached-twice", Deco::DeclsAndChild(twice.clone(), ANode::EntRef("ec".into())));
    push("use-entity-reached-twice-in-attr", Deco::DeclsAndAttr(twice, "x", vec![Part::Text("<".replace('<', "(")), Part::EntRef("ec".into()), Part::Text(")".into())]));
    // two attributes that differ in their prefix only; a prefix named like the local part of another attribute
    push("attrs-same-local-two-prefixes", Deco::Attrs(0, vec![("xmlns:pa", t("urn:a")), ("xmlns:pb", t("urn:b")), ("pa:x", t("1")), ("pb:x", t("2"))]));
    push("attrs-prefix-named-like-local", Deco::Attrs(0, vec![("xmlns:pa", t("urn:a")), ("xmlns:x", t("urn:x")), ("pa:x", t("1"))]));
    // characters whose low byte is the byte of a delimiter (U+0422 -> 0x22, U+0427 -> 0x27, U+043C -> 0x3C, U+0426 -> 0x26, U+043E -> 0x3E, U+045D -> 0x5D)
    push("attr-x-lowbyte-delimiters", Deco::Attr(0, "x", t("\u{422}\u{427}\u{43c}\u{426}\u{43e}\u{45d}")));
    push("text-lowbyte-delimiters", Deco::Child(0, false, ANode::Text("\u{422}\u{427}\u{43c}\u{426}\u{43e}\u{45d}\u{45d}\u{43e}".into())));
    push("decl-entity-lowbyte-delimiters", Deco::DeclAndChild(ent("el", t("\u{422}\u{427}\u{426}")), ANode::EntRef("el".into())));
    push("use-entity-ws", Deco::DeclAndChild(ent("ew", t("a\n b\t")), ANode::EntRef("ew".into())));
    push(
        "use-entity-charref",
        Deco::DeclAndChild(ent("ec", vec![Part::Text("a".into()), Part::CharRef('B')]), ANode::EntRef("ec".into())),
    );
    push(
        "use-entity-predef-nested",
        Deco::DeclAndChild(ent("en", vec![Part::EntRef("gt".into()), Part::Text("x".into())]), ANode::EntRef("en".into())),
    );
    push(
        "use-entity-in-attr",
        Deco::DeclAndAttr(ent("e", t("v")), "x", vec![Part::Text("a".into()), Part::EntRef("e".into())]),
    );
    push(
        "use-entity-ws-in-attr",
        Deco::DeclAndAttr(ent("ew", t("a\n b\t")), "x", vec![Part::EntRef("ew".into())]),
    );
    // a general entity used inside an attribute default (declared before the ATTLIST)
    v.push(LDeco {
        label: "use-entity-in-default".into(),
        deco: Deco::Decls(vec![
            ent("e", t("v")),
            attlist(root_name, "d", "CDATA", ADefault::Value { fixed: false, value: vec![Part::Text("a".into()), Part::EntRef("e".into())] }),
        ]),
    });
    v.push(LDeco {
        label: "use-charref-in-default".into(),
        deco: Deco::Decls(vec![attlist(root_name, "d", "CDATA", ADefault::Value { fixed: false, value: vec![Part::CharRef('A'), Part::EntRef("amp".into())] })]),
    });
    let mut push = |label: &str, d: Deco| v.push(LDeco { label: label.to_string(), deco: d });
    push(
        "use-default-overridden",
        Deco::DeclAndAttr(attlist(root_name, "d", "CDATA", ADefault::Value { fixed: false, value: t("v") }), "d", t("w")),
    );
    push(
        "use-nmtokens-written",
        Deco::DeclAndAttr(attlist(root_name, "d", "NMTOKENS", ADefault::Implied), "d", t("  v   w ")),
    );
    push("use-id-written", Deco::DeclAndAttr(attlist(root_name, "d", "ID", ADefault::Required), "d", t(" i1 ")));
    push(
        "use-unparsed-in-attr",
        Deco::DeclAndAttr(attlist(root_name, "d", "ENTITY", ADefault::Implied), "d", t("u")),
    );
    v
}

/// All decorations applicable to a skeleton, simplest first.
pub fn decorations(skel: &AElem) -> Vec<LDeco> {
    let n = count_elems(skel);
    let mut v = vec![];
    for i in 0..n {
        for (label, node) in child_menu() {
            v.push(LDeco { label: format!("e{}:first:{}", i, label), deco: Deco::Child(i, true, node.clone()) });
            // appending differs from prepending only when the element has children, but an
            // appended item next to a prepended one (k = 2) is what builds adjacent runs
            v.push(LDeco { label: format!("e{}:last:{}", i, label), deco: Deco::Child(i, false, node) });
        }
        for (label, name, val) in attr_menu() {
            v.push(LDeco { label: format!("e{}:{}", i, label), deco: Deco::Attr(i, name, val) });
        }
        for name in rename_menu() {
            v.push(LDeco { label: format!("e{}:rename:{}", i, name), deco: Deco::Rename(i, name) });
        }
    }
    v.extend(doc_menu(&skel.name));
    v
}

pub fn apply(skel: &AElem, decos: &[&LDeco]) -> ADoc {
    let mut d = doc(skel.clone());
    let mut decls: Vec<ADecl> = vec![];
    let mut bare: Option<bool> = None;
    let mut ext: Option<(Option<String>, String)> = None;
    for ld in decos {
        match &ld.deco {
            Deco::Rename(i, name) => with_elem(&mut d.root, *i, |e| e.name = name.to_string()),
            Deco::Attr(i, name, val) => with_elem(&mut d.root, *i, |e| e.attrs.push(atp(name, val.clone()))),
            Deco::Child(i, front, node) => with_elem(&mut d.root, *i, |e| {
                if *front {
                    e.children.insert(0, node.clone())
                } else {
                    e.children.push(node.clone())
                }
            }),
            Deco::Decl(dc) => decls.push(dc.clone()),
            Deco::Decls(dcs) => decls.extend(dcs.iter().cloned()),
            Deco::DeclAndChild(dc, node) => {
                decls.push(dc.clone());
                d.root.children.push(node.clone());
            }
            Deco::DeclAndAttr(dc, name, val) => {
                decls.push(dc.clone());
                d.root.attrs.push(atp(name, val.clone()));
            }
            Deco::DeclsAndChild(dcs, node) => {
                decls.extend(dcs.iter().cloned());
                d.root.children.push(node.clone());
            }
            Deco::DeclsAndAttr(dcs, name, val) => {
                decls.extend(dcs.iter().cloned());
                d.root.attrs.push(atp(name, val.clone()));
            }
            Deco::Attrs(i, list) => with_elem(&mut d.root, *i, |e| {
                for (name, val) in list {
                    e.attrs.push(atp(name, val.clone()));
                }
            }),
            Deco::XmlDecl(x) => d.xmldecl = Some(x.clone()),
            Deco::Pre(n) => d.pre.push(n.clone()),
            Deco::Mid(n) => d.mid.push(n.clone()),
            Deco::Post(n) => d.post.push(n.clone()),
            Deco::BareDoctype(s) => bare = Some(*s),
            Deco::ExternalId(p, sys) => ext = Some((p.map(|x| x.to_string()), sys.to_string())),
        }
    }
    // a root rename must carry over to declarations that name the root's element type
    if !decls.is_empty() || bare.is_some() || ext.is_some() {
        let root_name = d.root.name.clone();
        for dc in decls.iter_mut() {
            match dc {
                ADecl::AttList { elem, .. } if *elem == skel.name => *elem = root_name.clone(),
                ADecl::Element { name, .. } if *name == skel.name => *name = root_name.clone(),
                _ => {}
            }
        }
        let subset = bare.unwrap_or(false) || !decls.is_empty();
        let (public, system) = match ext {
            Some((p, s)) => (p, Some(s)),
            None => (None, None),
        };
        d.doctype = Some(ADoctype { name: root_name, public, system, decls, subset });
    }
    if d.doctype.is_none() && !d.mid.is_empty() {
        // without a DOCTYPE there is no "mid" region: the items simply precede the root
        let mid = std::mem::take(&mut d.mid);
        d.pre.extend(mid);
    }
    // adjacent text children would be one text item after parsing: merge them in the model
    merge_text(&mut d.root);
    d
}

pub fn merge_text(e: &mut AElem) {
    let mut out: Vec<ANode> = vec![];
    for c in std::mem::take(&mut e.children) {
        match (out.last_mut(), c) {
            (Some(ANode::Text(a)), ANode::Text(b)) => a.push_str(&b),
            (_, ANode::Elem(mut x)) => {
                merge_text(&mut x);
                out.push(ANode::Elem(x));
            }
            (_, c) => out.push(c),
        }
    }
    e.children = out;
}

/// Number of subsets of size ≤ k of n items.
pub fn subsets_upto(n: u64, k: usize) -> u64 {
    let mut t = 1;
    if k >= 1 {
        t += n;
    }
    if k >= 2 {
        t += n * (n.saturating_sub(1)) / 2;
    }
    if k >= 3 {
        t += n * (n.saturating_sub(1)) * (n.saturating_sub(2)) / 6;
    }
    t
}

/// idx-th subset (size ≤ k) of 0..n in "smaller subsets first" order.
pub fn nth_subset(n: u64, k: usize, mut idx: u64) -> Vec<usize> {
    if idx == 0 {
        return vec![];
    }
    idx -= 1;
    if idx < n {
        return vec![idx as usize];
    }
    idx -= n;
    if k >= 2 {
        let pairs = n * (n.saturating_sub(1)) / 2;
        if idx < pairs {
            // i < j
            let mut i = 0u64;
            loop {
                let row = n - 1 - i;
                if idx < row {
                    return vec![i as usize, (i + 1 + idx) as usize];
                }
                idx -= row;
                i += 1;
            }
        }
        idx -= pairs;
    }
    // triples i<j<l
    let mut i = 0u64;
    loop {
        let m = n - 1 - i; // items after i
        let row = m * (m.saturating_sub(1)) / 2;
        if idx < row {
            let mut j = 0u64;
            loop {
                let r2 = m - 1 - j;
                if idx < r2 {
                    return vec![i as usize, (i + 1 + j) as usize, (i + 2 + j + idx) as usize];
                }
                idx -= r2;
                j += 1;
            }
        }
        idx -= row;
        i += 1;
    }
}
