pub mod chars;
