pub mod adoc;
pub mod chars;
pub mod gen;
pub mod wf;
