pub mod adoc;
pub mod chars;
pub mod edits;
pub mod gen;
pub mod wf;
