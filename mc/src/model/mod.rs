pub mod adoc;
pub mod chars;
pub mod dom;
pub mod edits;
pub mod gen;
pub mod wf;
pub mod xpath;
