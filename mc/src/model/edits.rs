//! Seed documents and their token-edit neighbourhoods (C02, C03, C04).

use super::adoc::*;
use super::gen::*;

const MULTI: &[&str] = &[
    "<![CDATA[", "<!DOCTYPE", "<!ELEMENT", "<!ATTLIST", "<!ENTITY", "<!NOTATION", "<!--", "-->", "]]>", "</", "/>", "<?", "?>",
    "&#x", "&#", "#REQUIRED", "#IMPLIED", "#FIXED", "#PCDATA", "SYSTEM", "PUBLIC", "NDATA", "CDATA", "version", "encoding",
    "standalone",
];

pub fn tokenize(s: &str) -> Vec<String> {
    let cs: Vec<char> = s.chars().collect();
    let mut out = vec![];
    let mut i = 0;
    'outer: while i < cs.len() {
        for m in MULTI {
            let mc: Vec<char> = m.chars().collect();
            if cs[i..].starts_with(&mc) {
                out.push(m.to_string());
                i += mc.len();
                continue 'outer;
            }
        }
        let c = cs[i];
        if c.is_alphanumeric() || c == '_' {
            let st = i;
            while i < cs.len() && (cs[i].is_alphanumeric() || cs[i] == '_' || cs[i] == '.') {
                i += 1;
            }
            out.push(cs[st..i].iter().collect());
        } else if c.is_whitespace() {
            let st = i;
            while i < cs.len() && cs[i].is_whitespace() {
                i += 1;
            }
            out.push(cs[st..i].iter().collect());
        } else {
            out.push(c.to_string());
            i += 1;
        }
    }
    out
}

/// replacement / insertion alphabet
pub const SIGMA: &[&str] = &[
    "<", ">", "/", "</", "/>", "=", "\"", "'", "&", ";", "#", "&#", "x", "a", "b", ":", "1", "-", "--", ".", " ", "]", "]]>", "<!--",
    "-->", "<?", "?>", "<![CDATA[", "xml", "XmL", "<!DOCTYPE", "<!ENTITY", "%", "[", "SYSTEM", "NDATA", "\u{1}", "\u{b}", "\u{fffe}",
    "\u{ffff}", "\u{10ffff}", "&lt;", "&#60;", "&u;", "&#0;", "<a>", "</a>", "<r/>",
];

/// the 20 most structural tokens, for distance-2 neighbourhoods
pub const SIGMA2: &[&str] = &["<", ">", "/", "=", "\"", "'", "&", ";", "#", "a", ":", "-", " ", "]", "?", "!", "[", "%", "<a>", "</a>"];

/// All strings at token-edit distance 1 from the token list (delete, duplicate, transpose,
/// replace by σ, insert σ), in a fixed order.  `which` selects the replacement alphabet.
pub fn edit_count(ntok: usize, sigma: usize) -> u64 {
    // delete n, duplicate n, transpose n-1, replace n*sigma, insert (n+1)*sigma
    let n = ntok as u64;
    let s = sigma as u64;
    n + n + n.saturating_sub(1) + n * s + (n + 1) * s
}

pub fn nth_edit(toks: &[String], sigma: &[&str], mut k: u64) -> (Vec<String>, String) {
    let n = toks.len() as u64;
    let s = sigma.len() as u64;
    let mut v: Vec<String> = toks.to_vec();
    if k < n {
        let t = v.remove(k as usize);
        return (v, format!("delete#{}:{}", k, tok_class(&t)));
    }
    k -= n;
    if k < n {
        let t = v[k as usize].clone();
        v.insert(k as usize, t.clone());
        return (v, format!("duplicate#{}:{}", k, tok_class(&t)));
    }
    k -= n;
    if k < n.saturating_sub(1) {
        v.swap(k as usize, k as usize + 1);
        return (v, format!("transpose#{}", k));
    }
    k -= n.saturating_sub(1);
    if k < n * s {
        let pos = (k / s) as usize;
        let sym = sigma[(k % s) as usize];
        let old = std::mem::replace(&mut v[pos], sym.to_string());
        return (v, format!("replace#{}:{}->{}", pos, tok_class(&old), sym.escape_debug()));
    }
    k -= n * s;
    let pos = (k / s) as usize;
    let sym = sigma[(k % s) as usize];
    v.insert(pos, sym.to_string());
    (v, format!("insert#{}:{}", pos, sym.escape_debug()))
}

pub fn tok_class(t: &str) -> String {
    if t.chars().all(|c| c.is_whitespace()) {
        "S".into()
    } else if t.chars().all(|c| c.is_alphanumeric() || c == '_' || c == '.') {
        "name".into()
    } else {
        t.to_string()
    }
}

pub fn join(toks: &[String]) -> String {
    toks.concat()
}

/// Seed documents: one per production / construct, canonical renderings, plus a few richer ones.
pub fn seeds() -> Vec<String> {
    let skel = el("r", vec![], vec![e("a", vec![], vec![])]);
    let decos = decorations(&skel);
    let mut out: Vec<String> = vec![];
    let want: &[&str] = &[
        "e0:first:text-t",
        "e0:last:text-rbrack",
        "e1:first:charref-A",
        "e0:first:charref-lt",
        "e0:last:entref-amp",
        "e0:first:cdata-c",
        "e0:first:cdata-markup",
        "e0:first:comment-k",
        "e0:first:comment-dash",
        "e0:first:pi-t",
        "e0:first:pi-t-d",
        "e0:first:pi-xmls",
        "e0:attr-x",
        "e1:attr-y-empty",
        "e0:attr-px",
        "e0:attr-x-charref",
        "e0:attr-x-amp",
        "e0:attr-x-sq",
        "e0:attr-x-dq",
        "e0:nsdecl-default",
        "e0:nsdecl-p",
        "e0:rename:p:a",
        "xmldecl-v",
        "xmldecl-all",
        "pre-comment",
        "pre-pi",
        "post-comment",
        "post-pi",
        "doctype-bare",
        "doctype-empty-subset",
        "decl-entity",
        "decl-entity-charref",
        "decl-entity-nested",
        "decl-ext-entity-system",
        "decl-ext-entity-public",
        "decl-unparsed",
        "decl-notation-system",
        "decl-notation-public",
        "decl-notation-both",
        "decl-attlist-cdata-implied",
        "decl-attlist-enum-implied",
        "decl-attlist-notation-implied",
        "decl-attlist-required",
        "decl-attlist-default",
        "decl-attlist-fixed",
        "decl-attlist-two-defs",
        "decl-element-empty",
        "decl-element-mixed",
        "decl-element-nested",
        "decl-comment",
        "decl-pi",
        "use-entity",
        "use-entity-predef-nested",
        "use-entity-in-attr",
        "use-default-overridden",
    ];
    out.push(render_canonical(&apply(&skel, &[])));
    for w in want {
        if let Some(d) = decos.iter().find(|d| d.label == *w) {
            out.push(render_canonical(&apply(&skel, &[d])));
        }
    }
    // richer documents mixing prolog, DTD, namespaces, references and CDATA
    out.push("<?xml version=\"1.0\" encoding=\"UTF-8\"?><!DOCTYPE r [<!ENTITY e \"v\"><!ATTLIST r d CDATA \"x\">]><!--c--><r a='1' b=\"2\">t&e;<a/><![CDATA[<]]>&#65;<?p q?></r><!--z-->".into());
    out.push("<p:r xmlns:p=\"u\" xmlns=\"v\"><p:a p:x=\"1\">x</p:a><b/></p:r>".into());
    out.push("<r><a><b>t</b></a><a x=\"&lt;&#x41;\"/>u</r>".into());
    out
}
