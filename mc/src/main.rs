mod checks;
mod engine;
mod model;
mod obs;

use engine::{runner, Tier};

fn usage() -> i32 {
    eprintln!("usage: xmc check <ID> --tier quick|thorough | xmc replay <path> | xmc list");
    2
}

fn main() {
    let args: Vec<String> = std::env::args().skip(1).collect();
    let code = match args.first().map(|s| s.as_str()) {
        Some("check") => {
            let id = args.get(1).cloned().unwrap_or_default();
            let mut tier = std::env::var("VERIF_TIER").ok().and_then(|t| Tier::parse(&t)).unwrap_or(Tier::Quick);
            let mut i = 2;
            while i < args.len() {
                if args[i] == "--tier" {
                    if let Some(t) = args.get(i + 1).and_then(|t| Tier::parse(t)) {
                        tier = t;
                    }
                    i += 1;
                } else if let Some(t) = Tier::parse(&args[i]) {
                    tier = t;
                }
                i += 1;
            }
            match checks::lookup(&id) {
                Some(c) => runner::check_main(c, tier),
                None => {
                    eprintln!("unknown property id {}", id);
                    2
                }
            }
        }
        Some("worker") => {
            let id = args.get(1).cloned().unwrap_or_default();
            match checks::lookup(&id) {
                Some(c) => runner::worker_main(c, &args[2..]),
                None => 2,
            }
        }
        Some("replay") => match args.get(1) {
            Some(p) => runner::replay_main(&|id| checks::lookup(id), p),
            None => usage(),
        },
        Some("list") => {
            for c in checks::all() {
                println!("{}", c.id());
            }
            0
        }
        _ => usage(),
    };
    std::process::exit(code);
}
