//! Observation functions over the *public* API of xml_parser / xml_info / xml_dom / xml_xpath.
//! This is the only module (together with the checks' direct mutator calls) that touches the
//! implementation.  Everything is returned as canonical text so that a replay artefact can show
//! expected and observed side by side.

use std::fmt::Write as _;
use std::rc::Rc;
use xml_dom::{
    AsNode, Attr, CharacterData, Document, DocumentType, Element, Entity, NamedNodeMap, Node, Notation,
    ProcessingInstruction,
};
use xml_info as info;
use xml_info::{
    Attribute as IAttribute, Character as ICharacter, Comment as IComment, Document as IDocument,
    DocumentTypeDeclaration as IDoctype, Element as IElement, HasQName, Namespace as INamespace,
    Notation as INotation, ProcessingInstruction as IPI, UnexpandedEntityReference as IUnexp,
    UnparsedEntity as IUnparsed,
};

pub fn q(s: &str) -> String {
    // canonical quoted form: escapes make white space and odd characters visible
    let mut o = String::from("\"");
    for c in s.chars() {
        match c {
            '"' => o.push_str("\\\""),
            '\\' => o.push_str("\\\\"),
            '\n' => o.push_str("\\n"),
            '\r' => o.push_str("\\r"),
            '\t' => o.push_str("\\t"),
            c if (c as u32) < 0x20 || c == '\u{fffe}' || c == '\u{ffff}' => {
                let _ = write!(o, "\\u{{{:x}}}", c as u32);
            }
            c => o.push(c),
        }
    }
    o.push('"');
    o
}

pub fn opt(s: Option<&str>) -> String {
    match s {
        Some(v) => q(v),
        None => "-".to_string(),
    }
}

pub fn qn(prefix: Option<&str>, local: &str) -> String {
    match prefix {
        Some(p) => format!("{}:{}", p, local),
        None => local.to_string(),
    }
}

#[derive(Clone, Copy, PartialEq, Eq, Debug)]
pub enum View {
    /// individual text / cdata / charref / entityref items
    Raw,
    /// maximal runs of character data merged into one text(expanded) item
    Merged,
}

// ---------------------------------------------------------------------------------------------
// parse outcomes

#[derive(Debug, Clone, PartialEq)]
pub enum Parsed {
    /// rest == ""
    Complete,
    /// Ok, but unconsumed input remains
    Rest(String),
    Err(String),
}

pub fn parse_info(text: &str) -> (Parsed, Option<info::XmlNode<info::XmlDocument>>) {
    match xml_parser::document(text) {
        Ok((rest, tree)) => match info::XmlDocument::new(&tree) {
            Ok(doc) => {
                if rest.is_empty() {
                    (Parsed::Complete, Some(doc))
                } else {
                    (Parsed::Rest(rest.to_string()), Some(doc))
                }
            }
            Err(e) => (Parsed::Err(format!("info: {:?}", e)), None),
        },
        Err(e) => (Parsed::Err(format!("parse: {}", short_nom(&e.to_string()))), None),
    }
}

pub fn parse_dom(text: &str, expanded: bool) -> (Parsed, Option<xml_dom::XmlDocument>) {
    let r = if expanded {
        xml_dom::XmlDocument::from_raw_with_context(text, xml_dom::Context::from_text_expanded(true))
    } else {
        xml_dom::XmlDocument::from_raw(text)
    };
    match r {
        Ok((rest, doc)) => {
            if rest.is_empty() {
                (Parsed::Complete, Some(doc))
            } else {
                (Parsed::Rest(rest.to_string()), Some(doc))
            }
        }
        Err(e) => (Parsed::Err(short_nom(&format!("{:?}", e))), None),
    }
}

pub fn short_nom(s: &str) -> String {
    let t: String = s.chars().take(120).collect();
    t
}

// ---------------------------------------------------------------------------------------------
// infoset dump through xml_info accessors

pub struct Dump {
    pub s: String,
    pub view: View,
    run: String,
    run_open: bool,
    run_ind: usize,
}

impl Dump {
    pub fn new(view: View) -> Dump {
        Dump { s: String::new(), view, run: String::new(), run_open: false, run_ind: 0 }
    }
    pub fn line(&mut self, ind: usize, text: &str) {
        self.flush_run();
        for _ in 0..ind {
            self.s.push(' ');
        }
        self.s.push_str(text);
        self.s.push('\n');
    }
    /// character data: in Merged view accumulate, in Raw view emit the item line
    pub fn chars(&mut self, ind: usize, raw_line: &str, expanded: &str) {
        match self.view {
            View::Raw => self.line(ind, raw_line),
            View::Merged => {
                self.run_open = true;
                self.run_ind = ind;
                self.run.push_str(expanded);
            }
        }
    }
    pub fn flush_run(&mut self) {
        if self.run_open {
            self.run_open = false;
            let r = std::mem::take(&mut self.run);
            if !r.is_empty() {
                for _ in 0..self.run_ind {
                    self.s.push(' ');
                }
                self.s.push_str(&format!("text {}\n", q(&r)));
            }
        }
    }
    pub fn finish(mut self) -> String {
        self.flush_run();
        self.s
    }
}

pub fn info_dump(doc: &info::XmlNode<info::XmlDocument>, view: View) -> String {
    let mut d = Dump::new(view);
    let b = doc.borrow();
    d.line(
        0,
        &format!(
            "document version={} encoding={} standalone={}",
            opt(b.version()),
            q(b.character_encoding_scheme()),
            match b.standalone() {
                Some(true) => "yes",
                Some(false) => "no",
                None => "-",
            }
        ),
    );
    for item in b.children().iter() {
        info_item(&item, 1, &mut d);
    }
    d.flush_run();
    // document-level properties
    match b.notations() {
        Some(ns) => {
            let mut v: Vec<String> = ns
                .iter()
                .map(|n| {
                    let n = n.borrow();
                    format!("notation {} public={} system={}", n.name(), opt(n.public_identifier()), opt(n.system_identifier()))
                })
                .collect();
            v.sort();
            for l in v {
                d.line(1, &format!("[notations] {}", l));
            }
        }
        None => d.line(1, "[notations] no-value"),
    }
    let mut v: Vec<String> = b
        .unparsed_entities()
        .iter()
        .map(|u| {
            let u = u.borrow();
            format!(
                "unparsed {} public={} system={} ndata={}",
                u.name(),
                opt(u.public_identifier()),
                q(u.system_identifier()),
                u.notation_name()
            )
        })
        .collect();
    v.sort();
    for l in v {
        d.line(1, &format!("[unparsed-entities] {}", l));
    }
    d.finish()
}

fn info_item(item: &Rc<info::XmlItem>, ind: usize, d: &mut Dump) {
    match &**item {
        info::XmlItem::Element(e) => info_element(e, ind, d),
        info::XmlItem::Text(t) => {
            let t = t.borrow();
            let c = t.character_code().to_string();
            d.chars(ind, &format!("text {}", q(&c)), &c);
        }
        info::XmlItem::CData(t) => {
            let t = t.borrow();
            let c = t.character_code().to_string();
            d.chars(ind, &format!("cdata {}", q(&c)), &c);
        }
        info::XmlItem::CharReference(t) => {
            let t = t.borrow();
            let c = t.character_code().to_string();
            d.chars(ind, &format!("charref {}", q(&c)), &c);
        }
        info::XmlItem::Unexpanded(u) => {
            let u = u.borrow();
            let v = match u.value() {
                Ok(v) => v,
                Err(e) => format!("<error {:?}>", e),
            };
            d.chars(ind, &format!("entityref {} = {}", u.name(), q(&v)), &v);
        }
        info::XmlItem::Comment(c) => d.line(ind, &format!("comment {}", q(c.borrow().comment()))),
        info::XmlItem::PI(p) => {
            let p = p.borrow();
            d.line(ind, &format!("pi {} {}", p.target(), q(p.content())));
        }
        info::XmlItem::DocumentType(t) => {
            let t = t.borrow();
            d.line(
                ind,
                &format!(
                    "doctype {} public={} system={}",
                    qn(t.prefix(), t.local_name()),
                    opt(t.public_identifier()),
                    opt(t.system_identifier())
                ),
            );
            for e in t.entities() {
                let e = e.borrow();
                let val = e.values().map(|vs| {
                    let mut s = String::new();
                    for v in vs {
                        // character references are spelled canonically (decimal) so that the
                        // dump does not depend on the surface spelling
                        match v {
                            info::XmlEntityValue::Character(d, r) => match u32::from_str_radix(d, *r) {
                                Ok(n) => {
                                    let _ = write!(s, "&#{};", n);
                                }
                                Err(_) => {
                                    let _ = write!(s, "{}", v);
                                }
                            },
                            _ => {
                                let _ = write!(s, "{}", v);
                            }
                        }
                    }
                    s
                });
                d.line(
                    ind + 1,
                    &format!(
                        "entity {} value={} public={} system={} ndata={}",
                        e.name(),
                        opt(val.as_deref()),
                        opt(e.public_identifier()),
                        opt(e.system_identifier()),
                        opt(e.notation_name())
                    ),
                );
            }
            for n in t.notations() {
                let n = n.borrow();
                d.line(
                    ind + 1,
                    &format!("notation {} public={} system={}", n.name(), opt(n.public_identifier()), opt(n.system_identifier())),
                );
            }
            for p in IDoctype::children(&*t).iter() {
                let p = p.borrow();
                d.line(ind + 1, &format!("pi {} {}", p.target(), q(p.content())));
            }
        }
        other => d.line(ind, &format!("other {}", other)),
    }
}

fn info_element(e: &info::XmlNode<info::XmlElement>, ind: usize, d: &mut Dump) {
    let e = e.borrow();
    d.line(ind, &format!("element {}", qn(e.prefix(), e.local_name())));
    let mut ns: Vec<String> = e
        .namespace_attributes()
        .iter()
        .map(|a| {
            let a = a.borrow();
            let v = a.normalized_value().unwrap_or_else(|e| format!("<error {:?}>", e));
            format!("nsdecl {} = {}", qn(a.prefix(), a.local_name()), q(&v))
        })
        .collect();
    ns.sort();
    for l in ns {
        d.line(ind + 1, &l);
    }
    let mut at: Vec<String> = e
        .attributes()
        .iter()
        .map(|a| {
            let a = a.borrow();
            let v = a.normalized_value().unwrap_or_else(|e| format!("<error {:?}>", e));
            format!(
                "attr {} = {} {}",
                qn(a.prefix(), a.local_name()),
                q(&v),
                if a.specified() { "specified" } else { "defaulted" }
            )
        })
        .collect();
    at.sort();
    for l in at {
        d.line(ind + 1, &l);
    }
    for c in IElement::children(&*e).iter() {
        info_item(&c, ind + 1, d);
    }
    d.flush_run();
}

// ---------------------------------------------------------------------------------------------
// infoset dump through xml_dom accessors (what xq/xe and XPath see)

pub fn dom_dump(doc: &xml_dom::XmlDocument, view: View) -> String {
    let mut d = Dump::new(view);
    d.line(0, "document");
    for c in doc.child_nodes().iter() {
        dom_node(&c, 1, &mut d);
    }
    d.finish()
}

pub fn dom_node(n: &xml_dom::XmlNode, ind: usize, d: &mut Dump) {
    use xml_dom::XmlNode as N;
    match n {
        N::Element(e) => {
            d.line(ind, &format!("element {}", e.tag_name()));
            if let Some(attrs) = e.attributes() {
                let mut at: Vec<String> = attrs
                    .iter()
                    .map(|a| {
                        let v = a.value().unwrap_or_else(|e| format!("<error {:?}>", e));
                        format!("attr {} = {}", a.name(), q(&v))
                    })
                    .collect();
                at.sort();
                for l in at {
                    d.line(ind + 1, &l);
                }
            }
            for c in e.child_nodes().iter() {
                dom_node(&c, ind + 1, d);
            }
            d.flush_run();
        }
        N::Text(t) => {
            let v = t.data().unwrap_or_else(|e| format!("<error {:?}>", e));
            d.chars(ind, &format!("text {}", q(&v)), &v);
        }
        N::CData(t) => {
            let v = t.data().unwrap_or_else(|e| format!("<error {:?}>", e));
            d.chars(ind, &format!("cdata {}", q(&v)), &v);
        }
        N::ExpandedText(t) => {
            let v = t.data().unwrap_or_else(|e| format!("<error {:?}>", e));
            // an expanded text node is already a merged run
            d.flush_run();
            if d.view == View::Merged {
                d.chars(ind, "", &v);
                d.flush_run();
            } else {
                d.line(ind, &format!("text {}", q(&v)));
            }
        }
        N::EntityReference(r) => {
            let v = r.value().unwrap_or_else(|e| format!("<error {:?}>", e));
            let name = r.node_name();
            if name.starts_with("&#") {
                d.chars(ind, &format!("charref {}", q(&v)), &v);
            } else {
                d.chars(ind, &format!("entityref {} = {}", name, q(&v)), &v);
            }
        }
        N::Comment(c) => {
            let v = c.data().unwrap_or_else(|e| format!("<error {:?}>", e));
            d.line(ind, &format!("comment {}", q(&v)));
        }
        N::PI(p) => d.line(ind, &format!("pi {} {}", p.target(), q(&p.data()))),
        N::DocumentType(t) => {
            d.line(ind, &format!("doctype {}", t.name()));
            for e in t.entities().iter() {
                d.line(
                    ind + 1,
                    &format!(
                        "entity {} public={} system={} ndata={}",
                        e.node_name(),
                        opt(e.public_id().as_deref()),
                        opt(e.system_id().as_deref()),
                        opt(e.notation_name().as_deref())
                    ),
                );
            }
            for n in t.notations().iter() {
                d.line(
                    ind + 1,
                    &format!("notation {} public={} system={}", n.node_name(), opt(n.public_id().as_deref()), opt(n.system_id().as_deref())),
                );
            }
        }
        other => d.line(ind, &format!("other {:?}", other.node_type())),
    }
}

// ---------------------------------------------------------------------------------------------
// generic DOM walks used by several checks

/// All nodes of the attached tree in document order (element, then its attributes sorted by
/// name — their relative order is implementation dependent — then its children).
pub fn dom_preorder(doc: &xml_dom::XmlDocument, with_attrs: bool) -> Vec<xml_dom::XmlNode> {
    let mut v = vec![doc.as_node()];
    fn rec(n: &xml_dom::XmlNode, with_attrs: bool, v: &mut Vec<xml_dom::XmlNode>) {
        if with_attrs {
            if let xml_dom::XmlNode::Element(e) = n {
                if let Some(attrs) = e.attributes() {
                    let mut at: Vec<xml_dom::XmlAttr> = attrs.iter().collect();
                    at.sort_by_key(|a| a.name());
                    for a in at {
                        v.push(a.as_node());
                    }
                }
            }
        }
        for c in n.child_nodes().iter() {
            v.push(c.clone());
            if matches!(c, xml_dom::XmlNode::Element(_)) {
                rec(&c, with_attrs, v);
            }
        }
    }
    rec(&doc.as_node(), with_attrs, &mut v);
    v
}
