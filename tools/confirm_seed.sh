#!/bin/bash
# tools/confirm_seed.sh <seed-src-dir> <name>   e.g. /tmp/wt-out/C01/m1 C01-m1
# Confirms in a scratch worktree of /repo HEAD: patch applies, suite passes with it, demo fails with it and passes without.
SRC="$1"; NAME="$2"; WT=/tmp/confirm/$NAME
PATCH="$SRC/patch.diff"; [ -f /verif/seeded/$NAME/patch.diff ] && PATCH=/verif/seeded/$NAME/patch.diff
rm -rf $WT; mkdir -p /tmp/confirm; git -C /repo worktree prune; git -C /repo worktree add --detach -q $WT HEAD || exit 2
cd $WT; export CARGO_NET_OFFLINE=true CARGO_TARGET_DIR=/tmp/confirm/target-$NAME
crate=$(grep -o -E "(dom|info|parser|xpath|nom)/tests" "$SRC/notes.md" | head -1 | cut -d/ -f1); [ -z "$crate" ] && crate=dom
res="name=$NAME crate=$crate"
if git apply "$PATCH" 2>/dev/null; then res="$res applies=yes"; else res="$res applies=NO"; echo "$res"; cd /; git -C /repo worktree remove --force $WT; rm -rf $CARGO_TARGET_DIR; exit 1; fi
suite=$(cargo test --workspace --no-fail-fast --offline 2>&1 | grep "^test result" | awk '{p+=$4; f+=$6} END{print p"/"f}')
res="$res suite_pass/fail=$suite"
mkdir -p $crate/tests; cp "$SRC/demo.rs" $crate/tests/demo.rs
pkg=$(grep -m1 '^name' $crate/Cargo.toml | cut -d'"' -f2)
with=$(cargo test -p $pkg --test demo --offline 2>&1 | grep "^test result" | awk '{print $4"/"$6}')
git checkout -- . 
without=$(cargo test -p $pkg --test demo --offline 2>&1 | grep "^test result" | awk '{print $4"/"$6}')
res="$res demo_with_patch(pass/fail)=$with demo_without=$without"
echo "$res"
cd /; git -C /repo worktree remove --force $WT; rm -rf $CARGO_TARGET_DIR
