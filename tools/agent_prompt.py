#!/usr/bin/env python3
"""Prints the prompt given to a mutation sub-agent for one property (text of the property only)."""
import json, sys
pid = sys.argv[1]
for l in open('/verif/properties.jsonl'):
    p = json.loads(l)
    if p['id'] == pid:
        break
print(f"""You are helping to evaluate a verification effort for the Rust workspace at /tmp/wt/{pid} (a scratch git worktree of the repository 9506hqwy/xml-rs: an XML 1.0 parser built on nom (crates xml-nom, xml-parser), an XML Infoset tree (xml-info), a DOM Level 1 API (xml-dom) and an XPath 1.0 parser/evaluator (xml-xpath) with two example CLIs xq / xe in xpath/examples).

Work ONLY inside /tmp/wt/{pid} (source) and /tmp/wt-out/{pid} (your deliverables). Do not read or touch /verif, /repo or any other /tmp/wt/* directory. There is no network; build with `--offline`.

The property under study:

  {p['id']} — {p['title']}
  Statement: {p['statement']}
  Quantified: {p['quantifier']['text']}

Your task: produce TWO different, independent, realistic changes ("seeded defects") to the library source code (not the tests) each of which BREAKS this property while the workspace still compiles and the existing test suite still passes completely. Each should look like a plausible bug a maintainer could introduce during a refactor or optimisation (an off-by-one, a wrong branch order, a missing bookkeeping update, a cache that is not invalidated, a check moved after the side effect, a wrong range bound, etc.) — not sabotage like `if input == "magic"`. Prefer changes that need something SPECIFIC to manifest: an unusual input shape, a multi-step sequence of operations, a particular combination of features, or two cooperating sites that each look fine alone — not ones that any ordinary use would expose at once. The two changes must touch different mechanisms.

For each change k in {{1,2}} deliver in /tmp/wt-out/{pid}/m<k>/ :
  * patch.diff   — `git diff` of the change against the worktree's HEAD (source files only; must apply with `git apply` on a clean checkout)
  * a demonstration: demo.rs — a self-contained Rust integration test file (put it e.g. in the appropriate crate's tests/ directory while you work, for example /tmp/wt/{pid}/xpath/tests/demo.rs or dom/tests/demo.rs, and copy it to the deliverable directory) which FAILS with the change applied and PASSES without it; say in notes.md which crate's tests/ directory it belongs in and the command to run it.
  * notes.md     — what the change is, why it breaks the property, what specific input / sequence is needed for it to manifest, and the exact commands you ran.

You must verify yourself, for each change separately (reset the worktree with `git checkout -- .` between the two; remove your demo file from the tree when running the existing suite):
  1. with the change applied, `cd /tmp/wt/{pid} && CARGO_NET_OFFLINE=true cargo test --workspace --no-fail-fast --offline` passes completely (603 tests; the demo test file must not be present for this run);
  2. the demo fails with the change and passes without it.
Leave the worktree clean (git checkout -- . ; no untracked demo files) when done, but keep the deliverables in /tmp/wt-out/{pid}. Use CARGO_TARGET_DIR=/tmp/wt/{pid}/target (the default) so builds stay inside your worktree.

Final answer: a short summary of the two changes (files/functions touched, what manifests them) and confirmation of the verification steps with their results.""")
