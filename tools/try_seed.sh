#!/bin/bash
# tools/try_seed.sh <patch.diff> <tier> <ID>...   apply a seeded change to /repo, run the checks, undo it.
P="$1"; TIER="$2"; shift 2
cd /repo || exit 2
if [ -n "$(git status --porcelain)" ]; then echo "repo not clean"; exit 2; fi
if ! git apply "$P" 2>/dev/null; then
  if ! patch -p1 --fuzz=3 -s < "$P"; then echo "PATCH DOES NOT APPLY: $P"; git checkout -- .; git clean -fdq; exit 3; fi
fi
cd /verif
for id in "$@"; do
  out=$(./check $id $TIER 2>&1); rc=$?
  nv=$(echo "$out" | grep -c "^VIOLATION")
  echo "== $id rc=$rc violations=$nv"
  echo "$out" | grep -A1 "^VIOLATION" | grep "sig=" | head -4 | cut -c1-220
  echo "$out" | grep "MACHINERY" | head -3
done
cd /repo && git checkout -- . && git clean -fdq -e target
# restore the evidence files written against the mutated tree
cd /verif && git checkout -- evidence/C??.json evidence/by-tier/*.quick.json 2>/dev/null
