#!/usr/bin/env python3
"""Round-2 prompt: as agent_prompt.py, plus the list of seeded changes already collected for the property (to avoid duplicates)."""
import json, sys, os, subprocess
pid = sys.argv[1]
base = subprocess.run(["python3","/verif/tools/agent_prompt.py",pid],capture_output=True,text=True).stdout
base = base.replace(f"/tmp/wt/{pid}", f"/tmp/wt5/{pid}").replace(f"/tmp/wt-out/{pid}", f"/tmp/wt5-out/{pid}")
known=[]
for d in sorted(os.listdir('/verif/seeded')):
    m=json.load(open(f'/verif/seeded/{d}/meta.json'))
    if m['property']==pid:
        known.append("  - "+m['needs_to_manifest'])
extra = "\n\nSeveral seeded changes for this property have already been collected by someone else; yours must be DIFFERENT from them in mechanism and in what they need to manifest (do not re-do these):\n" + "\n".join(known) + "\n\nAim for subtle defects: a different module or layer than the obvious one, state that only goes wrong after a particular history, values at a boundary, interactions between two features (for example DTD declarations with namespaces, entities with attributes, edits followed by queries, the raw and the merged-text DOM views). The code base has some pre-existing deviations from the property; make sure your demonstration passes on the unmodified worktree. NEVER use `git stash` (the stash is shared by all worktrees of this repository and other people are working in sibling worktrees): keep your change with `git diff > file`, reset with `git checkout -- .`, re-apply with `git apply file`.\n"
print(base.rstrip()+extra)
