#!/opt/veriftools/pyvenv/bin/python
import json, jsonschema, sys, glob
m = json.load(open('/verif/MANIFEST.json'))
jsonschema.validate(m, json.load(open('/root/.vp/MANIFEST.schema.json')))
ids = [l and json.loads(l)['id'] for l in open('/verif/properties.jsonl')]
claimed = {c['property_id'] for c in m['checks']}
na = {c['property_id'] for c in m.get('not_applicable', [])}
assert claimed | na == set(ids) and not (claimed & na), (claimed, na)
es = json.load(open('/root/.vp/EVIDENCE.schema.json'))
for c in m['checks']:
    try:
        jsonschema.validate(json.load(open(c['evidence_file'])), es)
    except Exception as e:
        print("EVIDENCE PROBLEM", c['property_id'], str(e)[:200]); continue
print("manifest ok;", len(claimed), "claimed,", len(na), "not applicable; evidence files valid")
