#!/usr/bin/env python3
"""tools/register_seed.py <src-dir> <name> <property> <caught_by> <needs...>  -> /verif/seeded/<name>/{patch.diff,demo.rs,notes.md,meta.json}"""
import sys, os, shutil, json, re
src, name, prop, caught = sys.argv[1:5]
needs = " ".join(sys.argv[5:])
d = f"/verif/seeded/{name}"
os.makedirs(d, exist_ok=True)
ported = os.path.exists(f"{d}/patch.diff")
if not ported:
    shutil.copy(f"{src}/patch.diff", f"{d}/patch.diff")
else:
    shutil.copy(f"{src}/patch.diff", f"{d}/patch.original.diff")
for f in ("demo.rs", "notes.md"):
    if os.path.exists(f"{src}/{f}"):
        shutil.copy(f"{src}/{f}", f"{d}/{f}")
confirm = ""
for log in sorted(os.listdir("/tmp")):
    if log.startswith("confirm_wave"):
        for l in open(f"/tmp/{log}"):
            if l.startswith(f"name={name} "):
                confirm = l.strip()
meta = {
    "property": prop,
    "breaks": open(f"{src}/notes.md").read().split("\n")[0][:200] if os.path.exists(f"{src}/notes.md") else "",
    "needs_to_manifest": needs,
    "patch": "patch.diff applies to /repo HEAD with `git -C /repo apply`" + (" (ported by hand from the sub-agent's patch.original.diff, which was written against an earlier HEAD)" if ported else ""),
    "confirmed_in_scratch_worktree": confirm or "see DESIGN.md",
    "what_was_run": "tools/confirm_seed.sh (scratch worktree of /repo HEAD: git apply; cargo test --workspace --no-fail-fast --offline = 603 passed; demo.rs in the crate's tests/ dir fails with the patch and passes without) and tools/try_seed.sh <patch> quick <checks> (git -C /repo apply; ./check <id> quick; git -C /repo checkout -- .)",
    "caught_by": caught,
}
json.dump(meta, open(f"{d}/meta.json", "w"), indent=1)
print("registered", name)
