#!/bin/bash
# tools/run_thorough.sh <ID>...   run thorough tiers one after another from a snapshot of the built binaries
# (so that the harness can be edited and rebuilt meanwhile); logs in /verif/target/thorough-logs/<ID>.log
for id in "$@"; do
  s=$(date +%s)
  ${XMC_BIN:-/verif/target/thorough-bin}/xmc check $id --tier thorough > /verif/target/thorough-logs/$id.log 2>&1
  echo "$id rc=$? wall=$(( $(date +%s) - s ))s $(grep 'thorough tier' /verif/target/thorough-logs/$id.log | cut -c1-160)"
done
